//! C13 — parsing with a format string inverts formatting with it.
//!
//! A generator assembles *unambiguous* strftime format strings from a small grammar (date part in
//! calendar / ordinal / Sunday-week / Monday-week / ISO-week / composite form, time part in 24 h /
//! 12 h / composite form with every fraction specifier, zone part `%z` / `%:z` / `%+` / `%s`),
//! every numeric specifier with every padding modifier, separators drawn from ASCII and
//! multi-byte literals, `%%`, `%t`, `%n` and spaces, and no separator at all where both
//! neighbours are fixed-width. For every format the generator knows the value domain the format
//! can express (year window of `%y`, non-negative years of `%C`, ...) and the precision it prints.
//!
//! Oracle (independent of chrono's parser): the expected result of
//! `T::parse_from_str(&v.format(f).to_string(), f)` is `v` truncated to the printed precision,
//! computed on (day number, second of day, fraction) integers of R-cal / R-inst. The same is
//! asserted after changing the letter case of names / AM-PM, after adding surplus white space
//! where the format has white space, and for `parse_and_remainder(text + "|rest", f)`.
//! `%::z`, `%:::z`, `%Z` (print-only) and `%#z` (read-only) are exercised in a separate phase.

use crate::gen;
use crate::mon::{guard, h2, hstr, par_shards, Ctx, Local, Outcome, Report};
use crate::refcal as rc;
use crate::refinst::{self as ri, RDt};
use crate::rng::Rng;
use chrono::format::{Item, ParseError, Parsed, StrftimeItems};
use chrono::{DateTime, Datelike, FixedOffset, NaiveDate, NaiveDateTime, NaiveTime, TimeZone, Timelike};
use serde_json::{json, Value};
use std::fmt::Write as _;

const NSI: i64 = 1_000_000_000;

const B: &[&str] = &[
    // user-defined zone with a gap and a fold (zones::StepTz)
    "uz_in_fold_first", "uz_in_fold_second", "uz_plain", "uz_no_offset_in_format",
    // target types
    "t_naive_date", "t_naive_time", "t_naive_datetime", "t_datetime_fixed",
    // date part
    "d_ymd", "d_ordinal", "d_week_sun", "d_week_mon", "d_iso_week", "d_century_year", "d_two_digit_year",
    "d_iso_two_digit_year", "d_composite_D", "d_composite_x", "d_composite_F", "d_composite_v", "d_redundant_fields",
    "d_month_name_short", "d_month_name_long", "d_weekday_name_short", "d_weekday_name_long", "d_weekday_num",
    "d_quarter",
    // time part
    "h_24", "h_12_upper", "h_12_lower", "h_composite_T", "h_composite_X", "h_composite_R", "h_composite_r",
    "h_no_seconds", "f_dot_auto", "f_dot_3", "f_dot_6", "f_dot_9", "f_nodot_3", "f_nodot_6", "f_nodot_9",
    "f_nanos_numeric",
    // zone part / whole-value specifiers
    "z_plain", "z_colon", "z_rfc3339", "z_timestamp_only", "z_timestamp_zone", "z_timestamp_redundant", "z_ctime",
    "z_timestamp_fraction",
    // padding modifiers
    "pad_none", "pad_space", "pad_zero_explicit",
    // separators
    "sep_literal_ascii", "sep_literal_multibyte", "sep_percent", "sep_space", "sep_tab_newline", "sep_none_adjacent",
    // value classes (counted only where the format prints the field concerned)
    "v_year_negative", "v_year_5plus_digits", "v_year_lt_1000", "v_year_pivot_edge", "v_leap_second", "v_hour_0",
    "v_hour_12", "v_hour_ge_13", "v_frac_zero", "v_frac_ms", "v_frac_us", "v_frac_ns", "v_offset_negative",
    "v_offset_seconds", "v_offset_zero", "v_ts_negative", "v_wall_outside_range", "v_ordinal_366", "v_ordinal_lt_100",
    "v_week_0", "v_week_53", "v_iso_spill", "v_range_end", "v_day_lt_10",
    // checks performed
    "chk_plain", "chk_items_routes", "chk_remainder", "chk_case", "chk_space", "canonical_formats",
    // print-only / read-only specifiers
    "x_tzname_with_offset", "x_tzname_alone_rejected", "x_tzname_skipped_naive", "x_colon2_print_only",
    "x_colon3_print_only", "x_hash_z_reads_z", "x_hash_z_reads_colon_z", "x_hash_z_reads_hours_only",
];
/// Everything except value classes that need a particular format/value coincidence at low scale.
const FLOOR: &[&str] = &[
    "uz_in_fold_first", "uz_in_fold_second", "uz_plain", "uz_no_offset_in_format",
    "t_naive_date", "t_naive_time", "t_naive_datetime", "t_datetime_fixed", "d_ymd", "d_ordinal", "d_week_sun",
    "d_week_mon", "d_iso_week", "d_century_year", "d_two_digit_year", "d_iso_two_digit_year", "d_composite_D",
    "d_composite_x", "d_composite_F", "d_composite_v", "d_redundant_fields", "d_month_name_short",
    "d_month_name_long", "d_weekday_name_short", "d_weekday_name_long", "d_weekday_num", "d_quarter", "h_24",
    "h_12_upper", "h_12_lower", "h_composite_T", "h_composite_X", "h_composite_R", "h_composite_r", "h_no_seconds",
    "f_dot_auto", "f_dot_3", "f_dot_6", "f_dot_9", "f_nodot_3", "f_nodot_6", "f_nodot_9", "f_nanos_numeric", "z_plain",
    "z_colon", "z_rfc3339", "z_timestamp_only", "z_timestamp_zone", "z_timestamp_redundant", "z_ctime",
    "z_timestamp_fraction", "pad_none", "pad_space", "pad_zero_explicit", "sep_literal_ascii", "sep_literal_multibyte",
    "sep_percent", "sep_space", "sep_tab_newline", "sep_none_adjacent", "v_year_negative", "v_year_5plus_digits",
    "v_year_lt_1000", "v_year_pivot_edge", "v_leap_second", "v_hour_0", "v_hour_12", "v_hour_ge_13", "v_frac_zero",
    "v_frac_ms", "v_frac_us", "v_frac_ns", "v_offset_negative", "v_offset_seconds", "v_offset_zero", "v_ts_negative",
    "v_wall_outside_range", "v_ordinal_366", "v_ordinal_lt_100", "v_week_0", "v_week_53", "v_iso_spill", "v_range_end",
    "v_day_lt_10", "chk_plain", "chk_items_routes", "chk_remainder", "chk_case", "chk_space", "canonical_formats", "x_tzname_with_offset",
    "x_tzname_alone_rejected", "x_tzname_skipped_naive", "x_colon2_print_only", "x_colon3_print_only",
    "x_hash_z_reads_z", "x_hash_z_reads_colon_z", "x_hash_z_reads_hours_only",
];

fn bi(name: &str) -> usize {
    B.iter().position(|n| *n == name).unwrap_or_else(|| panic!("c13: unknown bucket {}", name))
}

// ------------------------------------------------------------------------------------------------
// Format model
// ------------------------------------------------------------------------------------------------

#[derive(Clone, Copy, PartialEq, Eq, Debug)]
enum PK {
    Other,
    /// prints letters that the reader accepts in any case (month/weekday names, AM/PM)
    Name,
    /// white space in the format: the reader accepts any amount of white space there
    Ws,
}

#[derive(Clone, Debug)]
struct Piece {
    spec: String,
    kind: PK,
}

#[derive(Clone, Copy, PartialEq, Eq, PartialOrd, Ord, Debug)]
enum Prec {
    Min,
    Sec,
    Ms,
    Us,
    Ns,
}

#[derive(Clone, Copy, PartialEq, Eq, Debug)]
enum Target {
    Date,
    Time,
    Naive,
    Zoned,
}

impl Target {
    fn ty(self) -> &'static str {
        match self {
            Target::Date => "NaiveDate",
            Target::Time => "NaiveTime",
            Target::Naive => "NaiveDateTime",
            Target::Zoned => "DateTime",
        }
    }
}

#[derive(Clone, Debug)]
struct Fmt {
    pieces: Vec<Piece>,
    text: String,
    hash: u64,
    target: Target,
    class: String,
    ymin: i64,
    ymax: i64,
    iso_min: i64,
    iso_max: i64,
    prec: Prec,
    /// calendar fields / wall-clock fields / `%s` / an offset are printed
    has_date: bool,
    has_time: bool,
    has_ts: bool,
    has_zone: bool,
    whole_minute_off: bool,
    pivot_year: bool,
    prints_year: bool,
    prints_ordinal: bool,
    prints_week: bool,
    prints_iso: bool,
    prints_day: bool,
    feats: Vec<usize>,
    can_case: bool,
    can_ws: bool,
}

/// Builder: pushes specifiers, keeps track of whether the reader could run on into following
/// digits (`open`), and derives the value domain and the printed precision.
struct Bld<'r> {
    rng: &'r mut Rng,
    pieces: Vec<Piece>,
    open: bool,
    after_dot: bool,
    compact: bool,
    tags: Vec<&'static str>,
    feats: Vec<&'static str>,
    full_year: bool,
    century: bool,
    two_digit: bool,
    iso_full: bool,
    iso_two: bool,
    seconds: bool,
    frac: Option<Prec>,
    has_date: bool,
    has_time: bool,
    has_ts: bool,
    has_zone: bool,
    prints_year: bool,
    prints_ordinal: bool,
    prints_week: bool,
    prints_iso: bool,
    prints_day: bool,
    forced_year: Option<(i64, i64)>,
}

const LITS: &[&str] = &[
    "-", "/", ":", ".", ",", "T", "|", "_", "%%", "\u{5e74}", "\u{b7}", "\u{2014}", "@", "h", "#", "(", ")", "'", "=", "\u{e9}",
    "\u{1f552}", "-", "/", ":", "-", "/", ":",
];
const WSS: &[&str] = &[" ", " ", " ", "  ", "%t", "%n", " %t", "\t", "\u{2003}"];

impl<'r> Bld<'r> {
    fn new(rng: &'r mut Rng, compact: bool) -> Bld<'r> {
        Bld {
            rng,
            pieces: Vec::new(),
            open: false,
            after_dot: false,
            compact,
            tags: Vec::new(),
            feats: Vec::new(),
            full_year: false,
            century: false,
            two_digit: false,
            iso_full: false,
            iso_two: false,
            seconds: false,
            frac: None,
            has_date: false,
            has_time: false,
            has_ts: false,
            has_zone: false,
            prints_year: false,
            prints_ordinal: false,
            prints_week: false,
            prints_iso: false,
            prints_day: false,
            forced_year: None,
        }
    }

    fn raw(&mut self, spec: &str, kind: PK) {
        self.pieces.push(Piece { spec: spec.to_string(), kind });
    }

    fn lit(&mut self, s: &str) {
        self.raw(s, PK::Other);
        self.feats.push(if s == "%%" {
            "sep_percent"
        } else if s.is_ascii() {
            "sep_literal_ascii"
        } else {
            "sep_literal_multibyte"
        });
        self.open = false;
        self.after_dot = false;
    }

    fn ws(&mut self, s: &str) {
        self.raw(s, PK::Ws);
        self.feats.push(if s.contains("%t") || s.contains("%n") || s.contains('\t') { "sep_tab_newline" } else { "sep_space" });
        self.open = false;
        self.after_dot = false;
    }

    /// a separator (always at least one piece)
    fn sep(&mut self) {
        let r = self.rng.below(100);
        let lit = |b: &mut Bld| loop {
            let l = *b.rng.pick(LITS);
            if b.after_dot && l == "." {
                continue;
            }
            b.lit(l);
            break;
        };
        match r {
            0..=44 => lit(self),
            45..=74 => {
                let w = *self.rng.pick(WSS);
                self.ws(w)
            }
            75..=89 => {
                lit(self);
                let w = *self.rng.pick(WSS);
                self.ws(w)
            }
            _ => {
                let w = *self.rng.pick(WSS);
                self.ws(w);
                lit(self);
                let w = *self.rng.pick(WSS);
                self.ws(w)
            }
        }
    }

    /// between two items: in compact mode mostly nothing (push() inserts a separator when the
    /// adjacency would be ambiguous), otherwise a separator
    fn join(&mut self) {
        if self.pieces.is_empty() {
            return;
        }
        if self.compact && self.rng.chance(3, 4) {
            return;
        }
        self.sep();
    }

    /// Push one specifier (with its optional padding modifier already in `spec`).
    fn push(&mut self, spec: &str) {
        let body = &spec[1..];
        let (m, core) = match body.as_bytes()[0] {
            b'-' | b'_' | b'0' if body.len() > 1 => (&body[..1], &body[1..]),
            _ => ("", body),
        };
        match m {
            "-" => self.feats.push("pad_none"),
            "_" => self.feats.push("pad_space"),
            "0" => self.feats.push("pad_zero_explicit"),
            _ => {}
        }
        let zero2 = m.is_empty() || m == "0"; // zero padded when the default is zero padding
        // (open after, text may start with a digit / sign / space, piece kind)
        let (open, sd, kind): (bool, bool, PK) = match core {
            "Y" => {
                self.full_year = true;
                self.has_date = true;
                self.prints_year = true;
                (!(self.compact && zero2), true, PK::Other)
            }
            "G" => {
                self.iso_full = true;
                self.has_date = true;
                self.prints_iso = true;
                (!(self.compact && zero2), true, PK::Other)
            }
            "C" => {
                self.century = true;
                self.has_date = true;
                self.prints_year = true;
                (!zero2, true, PK::Other)
            }
            "y" => {
                self.two_digit = true;
                self.has_date = true;
                self.prints_year = true;
                (!zero2, true, PK::Other)
            }
            "g" => {
                self.iso_two = true;
                self.has_date = true;
                self.prints_iso = true;
                (!zero2, true, PK::Other)
            }
            "m" => {
                self.has_date = true;
                (!zero2, true, PK::Other)
            }
            "d" => {
                self.has_date = true;
                self.prints_day = true;
                (!zero2, true, PK::Other)
            }
            "e" => {
                self.has_date = true;
                self.prints_day = true;
                (m != "0", true, PK::Other)
            }
            "j" => {
                self.has_date = true;
                self.prints_ordinal = true;
                (!zero2, true, PK::Other)
            }
            "U" | "W" => {
                self.has_date = true;
                self.prints_week = true;
                (!zero2, true, PK::Other)
            }
            "V" => {
                self.has_date = true;
                self.prints_iso = true;
                (!zero2, true, PK::Other)
            }
            "w" | "u" => {
                self.has_date = true;
                self.feats.push("d_weekday_num");
                (false, true, PK::Other)
            }
            "q" => {
                self.has_date = true;
                self.feats.push("d_quarter");
                (false, true, PK::Other)
            }
            "b" | "h" => {
                self.has_date = true;
                self.feats.push("d_month_name_short");
                (false, false, PK::Name)
            }
            "B" => {
                self.has_date = true;
                self.feats.push("d_month_name_long");
                (false, false, PK::Name)
            }
            "a" => {
                self.has_date = true;
                self.feats.push("d_weekday_name_short");
                (false, false, PK::Name)
            }
            "A" => {
                self.has_date = true;
                self.feats.push("d_weekday_name_long");
                (false, false, PK::Name)
            }
            "H" | "M" | "I" => {
                self.has_time = true;
                (!zero2, true, PK::Other)
            }
            "k" | "l" => {
                self.has_time = true;
                (m != "0", true, PK::Other)
            }
            "S" => {
                self.has_time = true;
                self.seconds = true;
                (!zero2, true, PK::Other)
            }
            "p" => {
                self.feats.push("h_12_upper");
                (false, false, PK::Name)
            }
            "P" => {
                self.feats.push("h_12_lower");
                (false, false, PK::Name)
            }
            "f" => {
                self.frac = Some(Prec::Ns);
                self.feats.push("f_nanos_numeric");
                (!zero2, true, PK::Other)
            }
            ".f" | ".3f" | ".6f" | ".9f" => {
                let (p, ft) = match core {
                    ".f" => (Prec::Ns, "f_dot_auto"),
                    ".3f" => (Prec::Ms, "f_dot_3"),
                    ".6f" => (Prec::Us, "f_dot_6"),
                    _ => (Prec::Ns, "f_dot_9"),
                };
                self.frac = Some(p);
                self.feats.push(ft);
                // the reader swallows every digit after the dot; `%.f` may also print nothing
                (true, false, PK::Other)
            }
            "3f" | "6f" | "9f" => {
                let (p, ft) = match core {
                    "3f" => (Prec::Ms, "f_nodot_3"),
                    "6f" => (Prec::Us, "f_nodot_6"),
                    _ => (Prec::Ns, "f_nodot_9"),
                };
                self.frac = Some(p);
                self.feats.push(ft);
                (false, true, PK::Other)
            }
            "s" => {
                self.has_ts = true;
                (true, true, PK::Other)
            }
            "z" => {
                self.has_zone = true;
                self.feats.push("z_plain");
                (false, false, PK::Other)
            }
            ":z" => {
                self.has_zone = true;
                self.feats.push("z_colon");
                (false, false, PK::Other)
            }
            "D" | "x" => {
                self.two_digit = true;
                self.has_date = true;
                self.prints_year = true;
                self.prints_day = true;
                self.feats.push(if core == "D" { "d_composite_D" } else { "d_composite_x" });
                (false, true, PK::Other)
            }
            "F" => {
                self.full_year = true;
                self.has_date = true;
                self.prints_year = true;
                self.prints_day = true;
                self.feats.push("d_composite_F");
                (false, true, PK::Other)
            }
            "v" => {
                self.full_year = true;
                self.has_date = true;
                self.prints_year = true;
                self.prints_day = true;
                self.feats.push("d_composite_v");
                self.feats.push("d_month_name_short");
                (!self.compact, true, PK::Name)
            }
            "T" | "X" => {
                self.has_time = true;
                self.seconds = true;
                self.feats.push(if core == "T" { "h_composite_T" } else { "h_composite_X" });
                (false, true, PK::Other)
            }
            "R" => {
                self.has_time = true;
                self.feats.push("h_composite_R");
                (false, true, PK::Other)
            }
            "r" => {
                self.has_time = true;
                self.seconds = true;
                self.feats.push("h_composite_r");
                (false, true, PK::Name)
            }
            "c" => {
                self.full_year = true;
                self.has_date = true;
                self.has_time = true;
                self.seconds = true;
                self.prints_year = true;
                self.prints_day = true;
                self.feats.push("z_ctime");
                self.feats.push("d_weekday_name_short");
                self.feats.push("d_month_name_short");
                (!self.compact, false, PK::Name)
            }
            "+" => {
                self.full_year = true;
                self.has_date = true;
                self.has_time = true;
                self.seconds = true;
                self.has_zone = true;
                self.prints_year = true;
                self.prints_day = true;
                self.frac = Some(Prec::Ns);
                self.feats.push("z_rfc3339");
                (false, true, PK::Other)
            }
            "t" | "n" => {
                self.ws(spec);
                return;
            }
            "%" => {
                self.lit(spec);
                return;
            }
            _ => panic!("c13 generator: unknown specifier {}", spec),
        };
        if self.open && sd {
            self.sep();
        } else if !self.pieces.is_empty() && self.pieces.last().map(|p| p.kind != PK::Ws && !is_literal_piece(p)).unwrap_or(false) {
            self.feats.push("sep_none_adjacent");
        }
        self.raw(spec, kind);
        self.open = open;
        self.after_dot = core.starts_with('.');
    }

    /// numeric specifier with a random padding modifier
    fn push_mod(&mut self, letter: &str) {
        let m = match self.rng.below(10) {
            0..=3 => "",
            4..=5 => "-",
            6..=7 => "_",
            _ => "0",
        };
        let s = format!("%{}{}", m, letter);
        self.push(&s);
    }

    fn finish(self, target: Target) -> Fmt {
        let mut ymin = rc::MIN_YEAR;
        let mut ymax = rc::MAX_YEAR;
        let mut iso_min = rc::MIN_YEAR - 1;
        let mut iso_max = rc::MAX_YEAR + 1;
        let mut pivot_year = false;
        let mut feats = self.feats.clone();
        if self.compact {
            // `%Y` / `%G` are fixed-width only for 0..=9999
            if self.full_year {
                ymin = 0;
                ymax = 9999;
            }
            if self.iso_full {
                iso_min = 0;
                iso_max = 9999;
            }
        }
        if self.century {
            // `%C` is documented as two digits: years 0..=9999
            ymin = ymin.max(0);
            ymax = ymax.min(9999);
            feats.push("d_century_year");
        }
        if self.two_digit {
            if !self.century && !self.full_year {
                // the documented pivot window of a lone two-digit year
                ymin = 1970;
                ymax = 2069;
                pivot_year = true;
                feats.push("d_two_digit_year");
            } else {
                // `%y` of a negative year is excluded by the property (rem_euclid printing)
                ymin = ymin.max(0);
            }
        }
        if self.iso_two {
            if !self.iso_full {
                iso_min = 1970;
                iso_max = 2069;
                pivot_year = true;
                feats.push("d_iso_two_digit_year");
            } else {
                iso_min = iso_min.max(0);
            }
        }
        if let Some((a, b)) = self.forced_year {
            ymin = ymin.max(a);
            ymax = ymax.min(b);
        }
        let prec = match (self.frac, self.seconds || self.has_ts) {
            (Some(p), _) => p,
            (None, true) => Prec::Sec,
            (None, false) => Prec::Min,
        };
        if self.has_time && !self.seconds {
            feats.push("h_no_seconds");
        }
        feats.push(match target {
            Target::Date => "t_naive_date",
            Target::Time => "t_naive_time",
            Target::Naive => "t_naive_datetime",
            Target::Zoned => "t_datetime_fixed",
        });
        let mut fi: Vec<usize> = feats.iter().map(|f| bi(f)).collect();
        fi.sort();
        fi.dedup();
        let text: String = self.pieces.iter().map(|p| p.spec.as_str()).collect();
        // canonical order, so that the class does not depend on the order of the parts
        let mut tags = self.tags.clone();
        tags.sort();
        tags.dedup();
        Fmt {
            hash: hstr(&text),
            can_case: self.pieces.iter().any(|p| p.kind == PK::Name),
            can_ws: self.pieces.iter().any(|p| p.kind == PK::Ws),
            pieces: self.pieces,
            text,
            target,
            class: tags.join("+"),
            ymin,
            ymax,
            iso_min,
            iso_max,
            prec,
            has_date: self.has_date,
            has_time: self.has_time,
            has_ts: self.has_ts,
            has_zone: self.has_zone,
            whole_minute_off: self.has_ts && self.has_time,
            pivot_year,
            prints_year: self.prints_year,
            prints_ordinal: self.prints_ordinal,
            prints_week: self.prints_week,
            prints_iso: self.prints_iso,
            prints_day: self.prints_day,
            feats: fi,
        }
    }
}

fn is_literal_piece(p: &Piece) -> bool {
    p.kind == PK::Other && (!p.spec.starts_with('%') || p.spec == "%%")
}

fn shuffle<T>(rng: &mut Rng, v: &mut [T]) {
    for i in (1..v.len()).rev() {
        let j = rng.below(i as u64 + 1) as usize;
        v.swap(i, j);
    }
}

/// items of one group: (specifier, takes a random padding modifier)
type Items = Vec<(String, bool)>;

fn emit(b: &mut Bld, mut items: Items, shuffle_pct: u64) {
    if b.rng.chance(shuffle_pct, 100) {
        shuffle(b.rng, &mut items);
    }
    for (s, m) in items {
        b.join();
        if m {
            b.push_mod(&s);
        } else {
            b.push(&format!("%{}", s));
        }
    }
}

fn weekday_item(rng: &mut Rng) -> (String, bool) {
    match rng.below(4) {
        0 => ("w".into(), false),
        1 => ("u".into(), false),
        2 => ("a".into(), false),
        _ => ("A".into(), false),
    }
}

fn month_item(rng: &mut Rng) -> (String, bool) {
    match rng.below(10) {
        0..=4 => ("m".into(), true),
        5..=6 => ("b".into(), false),
        7 => ("h".into(), false),
        _ => ("B".into(), false),
    }
}

fn day_item(rng: &mut Rng) -> (String, bool) {
    if rng.chance(2, 3) {
        ("d".into(), true)
    } else {
        ("e".into(), true)
    }
}

fn year_items(rng: &mut Rng, items: &mut Items) {
    match rng.below(100) {
        0..=54 => items.push(("Y".into(), true)),
        55..=74 => {
            items.push(("C".into(), true));
            items.push(("y".into(), true));
        }
        _ => items.push(("y".into(), true)),
    }
}

fn gen_date(b: &mut Bld) {
    let mut items: Items = Vec::new();
    let fam = b.rng.below(100);
    match fam {
        0..=34 => {
            b.tags.push("ymd");
            b.feats.push("d_ymd");
            year_items(b.rng, &mut items);
            items.push(month_item(b.rng));
            items.push(day_item(b.rng));
        }
        35..=46 => {
            b.tags.push("ordinal");
            b.feats.push("d_ordinal");
            year_items(b.rng, &mut items);
            items.push(("j".into(), true));
        }
        47..=58 => {
            b.tags.push("week-sun");
            b.feats.push("d_week_sun");
            year_items(b.rng, &mut items);
            items.push(("U".into(), true));
            items.push(weekday_item(b.rng));
        }
        59..=70 => {
            b.tags.push("week-mon");
            b.feats.push("d_week_mon");
            year_items(b.rng, &mut items);
            items.push(("W".into(), true));
            items.push(weekday_item(b.rng));
        }
        71..=82 => {
            b.tags.push("iso-week");
            b.feats.push("d_iso_week");
            if b.rng.chance(7, 10) {
                items.push(("G".into(), true));
            } else {
                items.push(("g".into(), true));
            }
            items.push(("V".into(), true));
            items.push(weekday_item(b.rng));
        }
        _ => {
            let c = *b.rng.pick(&["D", "x", "F", "v"]);
            b.tags.push(match c {
                "D" => "composite-D",
                "x" => "composite-x",
                "F" => "composite-F",
                _ => "composite-v",
            });
            items.push((c.into(), false));
        }
    }
    // redundant, consistent fields (the reader cross-checks them)
    if b.rng.chance(3, 10) {
        b.feats.push("d_redundant_fields");
        let n = 1 + b.rng.below(2);
        for _ in 0..n {
            let extra: (String, bool) = match b.rng.below(11) {
                0 => ("a".into(), false),
                1 => ("A".into(), false),
                2 => ("u".into(), false),
                3 => ("w".into(), false),
                4 => ("q".into(), false),
                5 => ("j".into(), true),
                6 => ("U".into(), true),
                7 => ("W".into(), true),
                8 => ("V".into(), true),
                9 => month_item(b.rng),
                _ => day_item(b.rng),
            };
            items.push(extra);
        }
    }
    emit(b, items, 40);
}

/// fraction directly after the seconds item (no separator of ours in between)
fn gen_fraction(b: &mut Bld) {
    match b.rng.below(12) {
        0..=2 => b.push("%.f"),
        3 => b.push("%.3f"),
        4 => b.push("%.6f"),
        5 => b.push("%.9f"),
        6 => {
            b.lit(".");
            b.push_mod("f")
        }
        7 => {
            b.lit(".");
            b.push("%3f")
        }
        8 => {
            b.lit(".");
            b.push("%6f")
        }
        9 => {
            b.lit(".");
            b.push("%9f")
        }
        10 => {
            b.sep();
            b.push_mod("f")
        }
        _ => {
            // no-dot forms directly adjacent (fixed width) when the seconds item allows it
            let s = *b.rng.pick(&["%3f", "%6f", "%9f"]);
            b.push(s)
        }
    }
}

fn gen_time(b: &mut Bld) {
    let r = b.rng.below(100);
    if r < 16 {
        let c = *b.rng.pick(&["T", "X", "R", "r"]);
        b.tags.push(match c {
            "T" => "composite-T",
            "X" => "composite-X",
            "R" => "composite-R",
            _ => "composite-r",
        });
        b.join();
        b.push(&format!("%{}", c));
        if (c == "T" || c == "X") && b.rng.chance(1, 2) {
            gen_fraction(b);
        }
        return;
    }
    let h12 = b.rng.chance(2, 5);
    b.tags.push(if h12 { "12h" } else { "24h" });
    if !h12 {
        b.feats.push("h_24");
    }
    let hour: &str = if h12 {
        if b.rng.chance(1, 2) {
            "I"
        } else {
            "l"
        }
    } else if b.rng.chance(2, 3) {
        "H"
    } else {
        "k"
    };
    let with_sec = b.rng.chance(4, 5);
    let with_frac = with_sec && b.rng.chance(3, 5);
    // groups: hour, minute, second(+fraction), am/pm
    let mut groups: Vec<u8> = vec![0, 1];
    if with_sec {
        groups.push(2);
    }
    if h12 {
        let pos = match b.rng.below(4) {
            0 => 0,
            1 => 1,
            _ => groups.len(),
        };
        groups.insert(pos, 3);
    }
    if b.rng.chance(15, 100) {
        shuffle(b.rng, &mut groups);
    }
    for g in groups {
        b.join();
        match g {
            0 => b.push_mod(hour),
            1 => b.push_mod("M"),
            2 => {
                b.push_mod("S");
                if with_frac {
                    gen_fraction(b);
                }
            }
            _ => {
                let p = if b.rng.chance(1, 2) { "%p" } else { "%P" };
                b.push(p)
            }
        }
    }
}

fn gen_zone(b: &mut Bld) {
    b.join();
    if b.rng.chance(1, 2) {
        b.tags.push("%z");
        b.push("%z");
    } else {
        b.tags.push("%:z");
        b.push("%:z");
    }
}

fn gen_ts(b: &mut Bld, with_frac_pct: u64) {
    b.join();
    b.tags.push("%s");
    b.push_mod("s");
    if b.rng.chance(with_frac_pct, 100) {
        b.feats.push("z_timestamp_fraction");
        gen_fraction(b);
    }
}

fn decorate_front(b: &mut Bld) {
    match b.rng.below(10) {
        0 => b.lit("at"),
        1 => b.lit("["),
        2 => b.ws(" "),
        3 => {
            b.lit("\u{65e5}\u{4ed8}:");
            b.ws(" ")
        }
        _ => {}
    }
}

fn decorate_back(b: &mut Bld) {
    match b.rng.below(10) {
        0 => b.lit("]"),
        1 => b.ws(" "),
        2 => {
            b.ws("%n");
        }
        3 => b.lit("\u{3002}"),
        _ => {}
    }
}

fn gen_format(rng: &mut Rng, target: Target) -> Fmt {
    let compact = rng.chance(1, 4);
    let mut b = Bld::new(rng, compact);
    decorate_front(&mut b);
    match target {
        Target::Date => gen_date(&mut b),
        Target::Time => gen_time(&mut b),
        Target::Naive => match b.rng.below(100) {
            0..=74 => {
                let redundant_ts = b.rng.chance(1, 10);
                let mut order = [0u8, 1];
                if b.rng.chance(1, 4) {
                    order.swap(0, 1);
                }
                for g in order {
                    if g == 0 {
                        gen_date(&mut b)
                    } else {
                        gen_time(&mut b)
                    }
                }
                if redundant_ts && b.seconds {
                    b.feats.push("z_timestamp_redundant");
                    gen_ts(&mut b, 0);
                }
            }
            75..=84 => {
                b.tags.push("%c");
                b.join();
                b.push("%c");
            }
            _ => {
                b.feats.push("z_timestamp_only");
                gen_ts(&mut b, 30);
            }
        },
        Target::Zoned => match b.rng.below(100) {
            0..=57 => {
                let redundant_ts = b.rng.chance(1, 8);
                let mut order = [0u8, 1, 2];
                if b.rng.chance(3, 10) {
                    shuffle(b.rng, &mut order);
                }
                for g in order {
                    match g {
                        0 => gen_date(&mut b),
                        1 => gen_time(&mut b),
                        _ => gen_zone(&mut b),
                    }
                }
                if redundant_ts && b.seconds {
                    b.feats.push("z_timestamp_redundant");
                    gen_ts(&mut b, 0);
                }
            }
            58..=69 => {
                b.tags.push("%+");
                b.join();
                b.push("%+");
            }
            70..=79 => {
                b.feats.push("z_timestamp_only");
                gen_ts(&mut b, 30);
            }
            80..=91 => {
                b.feats.push("z_timestamp_zone");
                if b.rng.chance(3, 4) {
                    gen_ts(&mut b, 30);
                    gen_zone(&mut b);
                } else {
                    gen_zone(&mut b);
                    gen_ts(&mut b, 30);
                }
            }
            _ => {
                b.tags.push("%c");
                b.join();
                b.push("%c");
                gen_zone(&mut b);
            }
        },
    }
    decorate_back(&mut b);
    b.finish(target)
}

/// Tokenise a hand-written format string into pieces through the same specifier table.
fn describe(rng: &mut Rng, text: &str, target: Target, tag: &'static str, year: Option<(i64, i64)>) -> Fmt {
    let mut b = Bld::new(rng, year == Some((0, 9999)));
    b.tags.push(tag);
    b.forced_year = year;
    let cs: Vec<char> = text.chars().collect();
    let mut i = 0;
    while i < cs.len() {
        let c = cs[i];
        if c == '%' {
            let mut j = i + 1;
            if matches!(cs[j], '-' | '_' | '0') {
                j += 1;
            }
            if cs[j] == '.' || cs[j] == ':' {
                j += 1;
            }
            if matches!(cs[j], '3' | '6' | '9') {
                j += 1;
            }
            let s: String = cs[i..=j].iter().collect();
            // no separator insertion for hand-written formats
            b.open = false;
            b.push(&s);
            i = j + 1;
        } else if c.is_whitespace() {
            let mut j = i;
            while j < cs.len() && cs[j].is_whitespace() {
                j += 1;
            }
            let s: String = cs[i..j].iter().collect();
            b.ws(&s);
            i = j;
        } else {
            let mut j = i;
            while j < cs.len() && cs[j] != '%' && !cs[j].is_whitespace() {
                j += 1;
            }
            let s: String = cs[i..j].iter().collect();
            b.lit(&s);
            i = j;
        }
    }
    b.feats.push("canonical_formats");
    b.finish(target)
}

/// Hand-written formats (rustdoc examples and the usual suspects); always part of the workload.
fn canonical(rng: &mut Rng) -> Vec<Fmt> {
    use Target::*;
    let y4 = Some((0, 9999));
    let list: &[(&str, Target, Option<(i64, i64)>)] = &[
        ("%Y-%m-%d", Date, None),
        ("%F", Date, None),
        ("%D", Date, None),
        ("%x", Date, None),
        ("%v", Date, None),
        ("%Y-%j", Date, None),
        ("%Y%j", Date, y4),
        ("%G-W%V-%u", Date, None),
        ("%GW%V%u", Date, y4),
        ("%g-W%V-%u", Date, None),
        ("%Y %U %w", Date, None),
        ("%Y %U %a", Date, None),
        ("%Y %W %u", Date, None),
        ("%Y %W %A", Date, None),
        ("%A, %B %e, %Y", Date, None),
        ("%a %b %d %Y", Date, None),
        ("%d.%m.%Y", Date, None),
        ("%Y%m%d", Date, y4),
        ("%C%y-%m-%d", Date, None),
        ("%C%y%m%d", Date, None),
        ("%y/%m/%d", Date, None),
        ("%y%m%d", Date, None),
        ("%-d/%-m/%-Y", Date, None),
        ("%_d %_m %_Y", Date, None),
        ("%0e-%0m-%0Y", Date, None),
        ("%d%b%Y", Date, None),
        ("%d%B%Y", Date, None),
        ("%Y-%m-%d (%a, day %j, quarter %q)", Date, None),
        ("%Y-%_j", Date, None),
        ("%Y-%-j", Date, None),
        ("%H:%M:%S", Time, None),
        ("%T", Time, None),
        ("%X", Time, None),
        ("%R", Time, None),
        ("%r", Time, None),
        ("%H:%M", Time, None),
        ("%H%M%S", Time, None),
        ("%I:%M:%S %p", Time, None),
        ("%l:%M %P", Time, None),
        ("%-I.%M%P", Time, None),
        ("%p%I%M%S%.f", Time, None),
        ("%k:%M:%S%.f", Time, None),
        ("%H:%M:%S%.3f", Time, None),
        ("%H:%M:%S%.6f", Time, None),
        ("%H:%M:%S%.9f", Time, None),
        ("%H:%M:%S.%f", Time, None),
        ("%H:%M:%S.%3f", Time, None),
        ("%H:%M:%S.%6f", Time, None),
        ("%H:%M:%S.%9f", Time, None),
        ("%H%M%S%3f", Time, None),
        ("%H%M%S%6f", Time, None),
        ("%H%M%S%9f", Time, None),
        ("%H%M%S%f", Time, None),
        ("%-H:%-M:%-S", Time, None),
        ("%_H:%_M:%_S", Time, None),
        ("%T%.f", Time, None),
        ("%Y-%m-%d %H:%M:%S", Naive, None),
        ("%Y-%m-%dT%H:%M:%S%.f", Naive, None),
        ("%F %T", Naive, None),
        ("%FT%T%.9f", Naive, None),
        ("%Y%m%d%H%M%S", Naive, y4),
        ("%c", Naive, None),
        ("%s", Naive, None),
        ("%s%.f", Naive, None),
        ("%d%b%Y%p%I%M%S%.f", Naive, None),
        ("%Y-%m-%d %H:%M:%S = UNIX timestamp %s", Naive, None),
        ("%y/%m/%d %H:%M", Naive, None),
        ("%D %r", Naive, None),
        ("%+", Zoned, None),
        ("%Y-%m-%dT%H:%M:%S%.f%:z", Zoned, None),
        ("%Y-%m-%dT%H:%M:%S%z", Zoned, None),
        ("%Y %b %d %H:%M:%S%.3f %z", Zoned, None),
        ("%a, %d %b %Y %H:%M:%S %z", Zoned, None),
        ("%s", Zoned, None),
        ("%s %z", Zoned, None),
        ("%s%:z", Zoned, None),
        ("%:z %s.%f", Zoned, None),
        ("%c %z", Zoned, None),
        ("%Y-%m-%d %H:%M:%S %z %s", Zoned, None),
        ("%z %F %T", Zoned, None),
        ("%G-W%V-%u %I:%M:%S%.6f %p %:z", Zoned, None),
        ("%Y-%j %T%:z", Zoned, None),
    ];
    list.iter().map(|(t, tg, y)| describe(rng, t, *tg, "canonical", *y)).collect()
}

// ------------------------------------------------------------------------------------------------
// Values and the oracle
// ------------------------------------------------------------------------------------------------

/// wall-clock reading + UTC offset (offset meaningful for `Target::Zoned` only)
#[derive(Clone, Copy, Debug, PartialEq, Eq)]
struct Val {
    wall: RDt,
    off: i64,
}

/// what a parse returned, read through accessors; for `Zoned` day/secs/frac are the UTC reading
#[derive(Clone, Copy, Debug, PartialEq, Eq)]
struct Got {
    day: i64,
    secs: i64,
    frac: i64,
    off: i64,
}

/// `t - off` seconds, the fraction (and the leap-second flag in it) untouched
fn shift(t: RDt, off: i64) -> RDt {
    let total = t.secs - off;
    RDt::new(t.day + total.div_euclid(86_400), total.rem_euclid(86_400), t.frac)
}

fn trunc(v: RDt, p: Prec) -> RDt {
    let leap = if v.frac >= NSI { NSI } else { 0 };
    let f = v.frac % NSI;
    match p {
        Prec::Min => RDt::new(v.day, v.secs - v.secs % 60, 0),
        Prec::Sec => RDt::new(v.day, v.secs, leap),
        Prec::Ms => RDt::new(v.day, v.secs, leap + f - f % 1_000_000),
        Prec::Us => RDt::new(v.day, v.secs, leap + f - f % 1_000),
        Prec::Ns => v,
    }
}

fn self_test() -> Result<(), String> {
    let chk = |c: bool, s: &str| if c { Ok(()) } else { Err(format!("c13 self-test failed: {}", s)) };
    let leap = RDt::new(735_000, 86_399, 1_123_456_789);
    chk(trunc(leap, Prec::Ms) == RDt::new(735_000, 86_399, 1_123_000_000), "trunc leap ms")?;
    chk(trunc(leap, Prec::Us) == RDt::new(735_000, 86_399, 1_123_456_000), "trunc leap us")?;
    chk(trunc(leap, Prec::Sec) == RDt::new(735_000, 86_399, NSI), "trunc leap sec")?;
    chk(trunc(leap, Prec::Min) == RDt::new(735_000, 86_340, 0), "trunc leap min")?;
    chk(trunc(leap, Prec::Ns) == leap, "trunc ns")?;
    chk(shift(RDt::new(10, 5, 7), 10) == RDt::new(9, 86_395, 7), "shift borrow")?;
    chk(shift(RDt::new(10, 86_395, 7), -10) == RDt::new(11, 5, 7), "shift carry")?;
    chk(shift(shift(leap, 34_231), -34_231) == leap, "shift inverse")?;
    let mut rng = Rng::new(0, "C13/self-test", 0);
    let f = describe(&mut rng, "%y/%m/%d %H:%M", Target::Naive, "canonical", None);
    chk(f.ymin == 1970 && f.ymax == 2069 && f.prec == Prec::Min && f.pieces.len() == 9 && f.can_ws && !f.can_case, "describe %y/%m/%d %H:%M")?;
    let f = describe(&mut rng, "%a, %d %b %Y %H:%M:%S%.3f %:z", Target::Zoned, "canonical", None);
    chk(f.prec == Prec::Ms && f.has_zone && f.has_date && f.has_time && !f.has_ts && f.can_case && f.ymin == rc::MIN_YEAR, "describe rfc2822-like")?;
    Ok(())
}

enum CV {
    D(NaiveDate),
    T(NaiveTime),
    N(NaiveDateTime),
    Z(DateTime<FixedOffset>),
}

fn build(t: Target, v: &Val) -> Option<CV> {
    match t {
        Target::Date => NaiveDate::from_num_days_from_ce_opt(v.wall.day as i32).map(CV::D),
        Target::Time => NaiveTime::from_num_seconds_from_midnight_opt(v.wall.secs as u32, v.wall.frac as u32).map(CV::T),
        Target::Naive => v.wall.to_chrono().map(CV::N),
        Target::Zoned => {
            let utc = shift(v.wall, v.off).to_chrono()?;
            Some(CV::Z(FixedOffset::east_opt(v.off as i32)?.from_utc_datetime(&utc)))
        }
    }
}

/// `value.format(f).to_string()` without the panic of `to_string` on a formatting error
fn render(cv: &CV, f: &str) -> Result<String, ()> {
    let mut s = String::new();
    let r = match cv {
        CV::D(x) => write!(s, "{}", x.format(f)),
        CV::T(x) => write!(s, "{}", x.format(f)),
        CV::N(x) => write!(s, "{}", x.format(f)),
        CV::Z(x) => write!(s, "{}", x.format(f)),
    };
    r.map(|_| s).map_err(|_| ())
}

fn got_d(x: &NaiveDate) -> Got {
    Got { day: x.num_days_from_ce() as i64, secs: 0, frac: 0, off: 0 }
}
fn got_t(x: &NaiveTime) -> Got {
    Got { day: 0, secs: x.num_seconds_from_midnight() as i64, frac: x.nanosecond() as i64, off: 0 }
}
fn got_n(x: &NaiveDateTime) -> Got {
    let r = RDt::of(x);
    Got { day: r.day, secs: r.secs, frac: r.frac, off: 0 }
}
fn got_z(x: &DateTime<FixedOffset>) -> Got {
    let r = RDt::of(&x.naive_utc());
    Got { day: r.day, secs: r.secs, frac: r.frac, off: x.offset().local_minus_utc() as i64 }
}

fn parse_plain(t: Target, text: &str, f: &str) -> Result<Got, ParseError> {
    match t {
        Target::Date => NaiveDate::parse_from_str(text, f).map(|x| got_d(&x)),
        Target::Time => NaiveTime::parse_from_str(text, f).map(|x| got_t(&x)),
        Target::Naive => NaiveDateTime::parse_from_str(text, f).map(|x| got_n(&x)),
        Target::Zoned => DateTime::parse_from_str(text, f).map(|x| got_z(&x)),
    }
}

/// The same parse through pre-parsed items (`StrftimeItems::parse` = borrowed items,
/// `parse_to_owned` = owned items) handed to `format::parse` and resolved by `Parsed`.
fn parse_items(t: Target, text: &str, items: &[Item<'_>]) -> Result<Got, ParseError> {
    let mut p = Parsed::new();
    chrono::format::parse(&mut p, text, items.iter())?;
    match t {
        Target::Date => p.to_naive_date().map(|x| got_d(&x)),
        Target::Time => p.to_naive_time().map(|x| got_t(&x)),
        Target::Naive => p.to_naive_datetime_with_offset(0).map(|x| got_n(&x)),
        Target::Zoned => p.to_datetime().map(|x| got_z(&x)),
    }
}

fn parse_rem(t: Target, text: &str, f: &str) -> Result<(Got, String), ParseError> {
    match t {
        Target::Date => NaiveDate::parse_and_remainder(text, f).map(|(x, r)| (got_d(&x), r.to_string())),
        Target::Time => NaiveTime::parse_and_remainder(text, f).map(|(x, r)| (got_t(&x), r.to_string())),
        Target::Naive => NaiveDateTime::parse_and_remainder(text, f).map(|(x, r)| (got_n(&x), r.to_string())),
        Target::Zoned => DateTime::parse_and_remainder(text, f).map(|(x, r)| (got_z(&x), r.to_string())),
    }
}

/// Offset printed with minute precision: the parsed offset must be a whole number of minutes in
/// the same printed minute (rounding mode not asserted), and exact for whole-minute offsets.
fn offset_ok_minutes(got: i64, truth: i64) -> bool {
    if truth % 60 == 0 {
        got == truth
    } else {
        got % 60 == 0 && (got - truth).abs() < 60
    }
}

/// The oracle: is `got` the value `v`, up to the precision `f` prints? Err(failure kind, expected)
fn judge(f: &Fmt, v: &Val, got: &Got) -> Result<(), (&'static str, Value)> {
    match f.target {
        Target::Date => {
            if got.day == v.wall.day {
                Ok(())
            } else {
                Err(("wrong-value", json!({"day_number": v.wall.day, "ymd": format!("{:?}", rc::civil_from_days(v.wall.day))})))
            }
        }
        Target::Time => {
            let e = trunc(v.wall, f.prec);
            if (got.secs, got.frac) == (e.secs, e.frac) {
                Ok(())
            } else {
                Err(("wrong-value", json!({"secs_of_day": e.secs, "frac": e.frac})))
            }
        }
        Target::Naive => {
            let e = trunc(v.wall, f.prec);
            if (got.day, got.secs, got.frac) == (e.day, e.secs, e.frac) {
                Ok(())
            } else {
                Err(("wrong-value", json!({"day_number": e.day, "secs_of_day": e.secs, "frac": e.frac})))
            }
        }
        Target::Zoned => {
            let got_utc = RDt::new(got.day, got.secs, got.frac);
            if f.has_ts {
                // the timestamp fixes the instant
                let e = trunc(shift(v.wall, v.off), f.prec);
                if got_utc != e {
                    return Err(("wrong-instant", json!({"utc": {"day_number": e.day, "secs_of_day": e.secs, "frac": e.frac}, "offset": v.off})));
                }
            } else {
                // date and time fields fix the wall clock
                let e = trunc(v.wall, f.prec);
                if shift(got_utc, -got.off) != e {
                    return Err(("wrong-local-datetime", json!({"local": {"day_number": e.day, "secs_of_day": e.secs, "frac": e.frac}, "offset": v.off})));
                }
            }
            let off_ok = if f.has_zone {
                offset_ok_minutes(got.off, v.off)
            } else {
                // `%s` alone: only a UTC value is returned as such
                v.off != 0 || got.off == 0
            };
            if off_ok {
                Ok(())
            } else {
                Err(("wrong-offset", json!({"offset": v.off})))
            }
        }
    }
}

struct Cats {
    days: Vec<i64>,
    offs: Vec<i64>,
}

fn year_of(day: i64) -> i64 {
    rc::yo_from_days(day).0
}

fn day_ok(f: &Fmt, day: i64) -> bool {
    if !rc::in_range_day(day) {
        return false;
    }
    let y = year_of(day);
    if y < f.ymin || y > f.ymax {
        return false;
    }
    let iso = rc::iso_from_days(day).0;
    iso >= f.iso_min && iso <= f.iso_max
}

fn pick_day(rng: &mut Rng, f: &Fmt, c: &Cats) -> i64 {
    for _ in 0..6 {
        let d = gen::random_day(rng, &c.days);
        if day_ok(f, d) {
            return d;
        }
    }
    let (a, b) = (f.ymin.max(f.iso_min).max(rc::MIN_YEAR), f.ymax.min(f.iso_max).min(rc::MAX_YEAR));
    let (lo, hi) = (rc::day_number(a, 1, 1), rc::day_number(b, 12, 31));
    for _ in 0..8 {
        let d = if rng.chance(1, 4) {
            // the ends of the window (pivot years, ISO spill days)
            *rng.pick(&[lo, lo + 1, lo + 2, lo + 3, lo + 4, hi - 4, hi - 3, hi - 2, hi - 1, hi])
        } else {
            rng.range(lo, hi)
        };
        if day_ok(f, d) {
            return d;
        }
    }
    rc::day_number(rng.range(a, b), 7, 1)
}

fn gen_val(rng: &mut Rng, f: &Fmt, c: &Cats) -> Val {
    let mut w = gen::random_rdt_leap(rng, &c.days, true);
    match f.target {
        Target::Time => w.day = rc::UNIX_EPOCH_DAY,
        _ => w.day = pick_day(rng, f, c),
    }
    if f.target == Target::Date {
        w.secs = 0;
        w.frac = 0;
    }
    if f.has_ts && !f.has_time {
        // `%s` counts non-leap seconds only: a leap second is not expressible
        w.frac %= NSI;
    }
    if f.target != Target::Zoned {
        return Val { wall: w, off: 0 };
    }
    // wall clock one step outside NaiveDate's range (the UTC value is in range)
    if (f.has_date || f.has_ts) && f.ymin == rc::MIN_YEAR && f.ymax == rc::MAX_YEAR && f.iso_min < rc::MIN_YEAR && f.iso_max > rc::MAX_YEAR && rng.chance(1, 48) {
        let off = rng.range(60, 1439) * 60;
        // (with `%s` only at the upper end, so that this class does not overlap the
        // negative-timestamp class)
        return if f.has_ts || rng.chance(1, 2) {
            Val { wall: RDt::new(rc::max_day() + 1, rng.range(0, 3599), w.frac % NSI), off }
        } else {
            Val { wall: RDt::new(rc::min_day() - 1, 86_399 - rng.range(0, 3599), w.frac % NSI), off: -off }
        };
    }
    let mut off = gen::random_offset(rng, &c.offs);
    // whole-minute offsets where a seconds-bearing one is not expressible: together with both a
    // timestamp and clock fields; next to a leap second (chrono keeps leap seconds on UTC second
    // 59, so the local second is 59 only for whole-minute offsets); where rounding to the minute
    // would leave FixedOffset's range or, at a range end, NaiveDate's range
    let near_end = w.day <= rc::min_day() + 1 || w.day >= rc::max_day() - 1;
    if f.whole_minute_off || w.frac >= NSI || near_end || (off % 60 != 0 && off.abs() > 86_340) {
        off -= off % 60;
    }
    if !rc::in_range_day(shift(w, off).day) {
        off = -off;
    }
    Val { wall: w, off }
}

struct VIx {
    items: usize,
    neg: usize,
    y5: usize,
    y3: usize,
    pivot: usize,
    leap: usize,
    h0: usize,
    h12: usize,
    h13: usize,
    f0: usize,
    fms: usize,
    fus: usize,
    fns: usize,
    oneg: usize,
    osec: usize,
    ozero: usize,
    tsneg: usize,
    outside: usize,
    o366: usize,
    o99: usize,
    w0: usize,
    w53: usize,
    spill: usize,
    end: usize,
    d9: usize,
    plain: usize,
    rem: usize,
    case: usize,
    space: usize,
}

fn vix() -> VIx {
    VIx {
        neg: bi("v_year_negative"),
        y5: bi("v_year_5plus_digits"),
        y3: bi("v_year_lt_1000"),
        pivot: bi("v_year_pivot_edge"),
        leap: bi("v_leap_second"),
        h0: bi("v_hour_0"),
        h12: bi("v_hour_12"),
        h13: bi("v_hour_ge_13"),
        f0: bi("v_frac_zero"),
        fms: bi("v_frac_ms"),
        fus: bi("v_frac_us"),
        fns: bi("v_frac_ns"),
        oneg: bi("v_offset_negative"),
        osec: bi("v_offset_seconds"),
        ozero: bi("v_offset_zero"),
        tsneg: bi("v_ts_negative"),
        outside: bi("v_wall_outside_range"),
        o366: bi("v_ordinal_366"),
        o99: bi("v_ordinal_lt_100"),
        w0: bi("v_week_0"),
        w53: bi("v_week_53"),
        spill: bi("v_iso_spill"),
        end: bi("v_range_end"),
        d9: bi("v_day_lt_10"),
        plain: bi("chk_plain"),
        items: bi("chk_items_routes"),
        rem: bi("chk_remainder"),
        case: bi("chk_case"),
        space: bi("chk_space"),
    }
}

fn unix_ts(f: &Fmt, v: &Val) -> i64 {
    if f.target == Target::Zoned {
        shift(v.wall, v.off).unix_secs()
    } else {
        v.wall.unix_secs()
    }
}

/// Input classes with their own signature (the two defects suspected in DESIGN §5: P1, D2).
fn special_class(f: &Fmt, v: &Val) -> Option<&'static str> {
    if f.target == Target::Zoned && !rc::in_range_day(v.wall.day) {
        Some("wall-date-outside-NaiveDate-range")
    } else if f.has_ts && unix_ts(f, v) < 0 {
        Some("%s-negative-timestamp")
    } else {
        None
    }
}

/// coverage buckets of the value; returns true if the case is non-trivial
fn value_buckets(loc: &mut Local, x: &VIx, f: &Fmt, v: &Val) -> bool {
    let mut nt = false;
    let mut hit = |loc: &mut Local, i: usize| {
        loc.bucket(i);
        nt = true;
    };
    if f.has_date {
        let outside = !rc::in_range_day(v.wall.day);
        if outside {
            hit(loc, x.outside);
        } else {
            let (y, o) = rc::yo_from_days(v.wall.day);
            if f.prints_year || f.prints_iso {
                if y < 0 {
                    hit(loc, x.neg);
                } else if y > 9999 {
                    hit(loc, x.y5);
                } else if y < 1000 {
                    hit(loc, x.y3);
                }
                if f.pivot_year && (y == 1970 || y == 2069 || y == 1999 || y == 2000) {
                    hit(loc, x.pivot);
                }
            }
            if f.prints_ordinal {
                if o == 366 {
                    hit(loc, x.o366);
                } else if o < 100 {
                    hit(loc, x.o99);
                }
            }
            if f.prints_week {
                // strftime definitions: %U = (yday + 7 - wday_from_sunday) / 7, %W likewise from Monday
                let wd = rc::weekday(v.wall.day);
                let u = (o - 1 + 7 - (wd + 1) % 7) / 7;
                let w = (o - 1 + 7 - wd) / 7;
                if u == 0 || w == 0 {
                    hit(loc, x.w0);
                }
                if u == 53 || w == 53 {
                    hit(loc, x.w53);
                }
            }
            if f.prints_iso && rc::iso_from_days(v.wall.day).0 != y {
                hit(loc, x.spill);
            }
            if f.prints_day && rc::md_from_ordinal(y, o).1 < 10 {
                hit(loc, x.d9);
            }
            if v.wall.day <= rc::min_day() + 366 || v.wall.day >= rc::max_day() - 366 {
                hit(loc, x.end);
            }
        }
    }
    if f.has_time {
        let h = v.wall.secs / 3600;
        if h == 0 {
            hit(loc, x.h0);
        } else if h == 12 {
            hit(loc, x.h12);
        } else if h >= 13 {
            loc.bucket(x.h13);
        }
    }
    if f.has_time || f.has_ts {
        if v.wall.frac >= NSI {
            hit(loc, x.leap);
        }
        if f.prec >= Prec::Ms {
            let fr = v.wall.frac % NSI;
            if fr == 0 {
                hit(loc, x.f0);
            } else if fr % 1_000_000 == 0 {
                loc.bucket(x.fms);
            } else if fr % 1000 == 0 {
                loc.bucket(x.fus);
            } else {
                loc.bucket(x.fns);
            }
        }
    }
    if f.has_zone {
        if v.off < 0 {
            hit(loc, x.oneg);
        }
        if v.off % 60 != 0 {
            hit(loc, x.osec);
        }
        if v.off == 0 {
            hit(loc, x.ozero);
        }
    }
    if f.has_ts && unix_ts(f, v) < 0 {
        hit(loc, x.tsneg);
    }
    nt
}

fn show_val(f: &Fmt, v: &Val) -> Value {
    let (y, m, d) = rc::civil_from_days(v.wall.day);
    let (hh, mm, ss) = v.wall.hms();
    let mut o = json!({"local": format!("{}{:04}-{:02}-{:02}T{:02}:{:02}:{:02} +{}ns{}", if y < 0 { "-" } else { "" }, y.abs(), m, d, hh, mm, ss, v.wall.frac % NSI, if v.wall.frac >= NSI { " (leap second)" } else { "" }),
                       "day_number": v.wall.day, "secs_of_day": v.wall.secs, "frac": v.wall.frac});
    if f.target == Target::Zoned {
        o["offset_secs"] = json!(v.off);
        o["unix_timestamp"] = json!(unix_ts(f, v));
    }
    o
}

const WS_CHARS: &[char] = &[' ', ' ', ' ', '\t', '\n', '\r', '\u{b}', '\u{c}', '\u{a0}', '\u{2003}', '\u{3000}'];

fn random_ws(rng: &mut Rng, min: u64) -> String {
    let n = min + rng.below(3);
    (0..n).map(|_| *rng.pick(WS_CHARS)).collect()
}

fn flip_case(rng: &mut Rng, s: &str) -> String {
    let mode = rng.below(4);
    s.chars()
        .map(|c| {
            if !c.is_ascii_alphabetic() {
                return c;
            }
            let up = match mode {
                0 => true,
                1 => false,
                _ => rng.chance(1, 2),
            };
            if up {
                c.to_ascii_uppercase()
            } else {
                c.to_ascii_lowercase()
            }
        })
        .collect()
}

fn sig(f: &Fmt, entry: &str, class: &str, variant: &str, failure: &str) -> String {
    if variant.is_empty() {
        format!("C13/{}::{}/{}/{}", f.target.ty(), entry, class, failure)
    } else {
        format!("C13/{}::{}/{}/{}/{}", f.target.ty(), entry, class, variant, failure)
    }
}

/// compare one parse result with the oracle; returns true when it held
#[allow(clippy::too_many_arguments)]
fn settle(loc: &mut Local, f: &Fmt, v: &Val, class: &str, entry: &str, variant: &str, text: &str, r: Result<Result<Got, ParseError>, crate::mon::PanicInfo>) -> bool {
    loc.eval();
    match r {
        Err(p) => {
            loc.violation(
                &format!("C13/{}::{}/panic@{}", f.target.ty(), entry, p.site()),
                json!({"format": f.text, "value": show_val(f, v), "text": text, "panic": p.to_json()}),
            );
            false
        }
        Ok(Err(e)) => {
            loc.violation(
                &sig(f, entry, class, variant, &format!("err-{:?}", e.kind())),
                json!({"format": f.text, "value": show_val(f, v), "text": text, "expected": "Ok(value up to the printed precision)", "observed": format!("Err({:?})", e.kind())}),
            );
            false
        }
        Ok(Ok(g)) => match judge(f, v, &g) {
            Ok(()) => true,
            Err((kind, exp)) => {
                loc.violation(
                    &sig(f, entry, class, variant, kind),
                    json!({"format": f.text, "value": show_val(f, v), "text": text, "expected": exp, "observed": format!("{:?}", g), "precision": format!("{:?}", f.prec)}),
                );
                false
            }
        },
    }
}

fn run_case(loc: &mut Local, x: &VIx, rng: &mut Rng, f: &Fmt, v: &Val) {
    let cv = match guard(|| build(f.target, v)) {
        Ok(Some(cv)) => cv,
        other => {
            loc.rep.harness_error(format!("c13: cannot construct value {:?} for {:?} ({})", v, f.target, if other.is_err() { "panic" } else { "None" }));
            return;
        }
    };
    for &b in &f.feats {
        loc.bucket(b);
    }
    let nt = value_buckets(loc, x, f, v);
    if nt {
        loc.nontrivial(h2(f.hash, h2(h2(v.wall.day as u64, v.wall.secs as u64), h2(v.wall.frac as u64, v.off as u64))));
    }
    let special = special_class(f, v);
    let class: &str = special.unwrap_or(&f.class);
    // 1. the text under test
    let text = match guard(|| render(&cv, &f.text)) {
        Ok(Ok(s)) => s,
        Ok(Err(())) => {
            loc.eval();
            loc.violation(&format!("C13/{}::format/{}/fmt-error", f.target.ty(), class), json!({"format": f.text, "value": show_val(f, v)}));
            return;
        }
        Err(p) => {
            loc.eval();
            loc.violation(&format!("C13/{}::format/panic@{}", f.target.ty(), p.site()), json!({"format": f.text, "value": show_val(f, v), "panic": p.to_json()}));
            return;
        }
    };
    // 2. plain round trip
    loc.bucket(x.plain);
    let r = guard(|| parse_plain(f.target, &text, &f.text));
    if !settle(loc, f, v, class, "parse_from_str", "", &text, r) {
        return;
    }
    loc.sample(|| json!({"format": f.text, "value": show_val(f, v), "text": text, "result": "parsed back to the value (up to the printed precision)"}));
    // 2b. the same text through pre-parsed borrowed and owned items
    if rng.chance(1, 4) {
        loc.bucket(x.items);
        for (entry, owned) in [("format::parse(StrftimeItems::parse items)", false), ("format::parse(StrftimeItems::parse_to_owned items)", true)] {
            let r = guard(|| {
                if owned {
                    match StrftimeItems::new(&f.text).parse_to_owned() {
                        Ok(items) => Some(parse_items(f.target, &text, &items)),
                        Err(_) => None,
                    }
                } else {
                    match StrftimeItems::new(&f.text).parse() {
                        Ok(items) => Some(parse_items(f.target, &text, &items)),
                        Err(_) => None,
                    }
                }
            });
            match r {
                Ok(None) => loc.violation(&sig(f, entry, class, "", "format-string-rejected-by-item-parser"), json!({"format": f.text})),
                Ok(Some(r)) => {
                    settle(loc, f, v, class, entry, "", &text, Ok(r));
                }
                Err(p) => {
                    settle(loc, f, v, class, entry, "", &text, Err(p));
                }
            }
        }
    }
    // 2c. the deprecated zone-side entry point: `tz.datetime_from_str(text, fmt)` reads the text as a
    // wall clock of that zone (text without an offset) or checks the offset in the text against the zone
    #[allow(deprecated)]
    if rng.chance(1, 4) && (f.target == Target::Naive || (f.target == Target::Zoned && v.off == 0)) {
        use chrono::Utc;
        let r = guard(|| Utc.datetime_from_str(&text, &f.text).map(|x| if f.target == Target::Naive { got_n(&x.naive_utc()) } else { got_z(&x.fixed_offset()) }));
        settle(loc, f, v, class, "Utc.datetime_from_str", "", &text, r);
    }
    // 3. parse_and_remainder
    {
        loc.bucket(x.rem);
        let t2 = format!("{}|rest", text);
        let r = guard(|| parse_rem(f.target, &t2, &f.text));
        let (r1, rem) = match r {
            Ok(Ok((g, rem))) => (Ok(Ok(g)), Some(rem)),
            Ok(Err(e)) => (Ok(Err(e)), None),
            Err(p) => (Err(p), None),
        };
        if settle(loc, f, v, class, "parse_and_remainder", "", &t2, r1) {
            if rem.as_deref() != Some("|rest") {
                loc.violation(
                    &sig(f, "parse_and_remainder", class, "", "wrong-remainder"),
                    json!({"format": f.text, "value": show_val(f, v), "text": t2, "expected": "|rest", "observed": rem}),
                );
            }
        }
    }
    // 4. perturbed text: letter case of names, surplus white space where the format has some
    // composites whose documented expansion contains white space (`%r` = `%I:%M:%S %p`,
    // `%c` = `%a %b %e %T %Y`): surplus white space is also allowed at those inner positions
    let comp_ws = f.pieces.iter().any(|p| p.spec == "%r" || p.spec == "%c");
    let can_ws = f.can_ws || comp_ws;
    if (f.can_case || can_ws) && rng.chance(1, 2) {
        let do_case = f.can_case && (!can_ws || rng.chance(2, 3));
        let do_ws = can_ws && (!do_case || rng.chance(1, 2));
        let mut joined = String::new();
        let mut pert = String::new();
        for p in &f.pieces {
            let s = match guard(|| render(&cv, &p.spec)) {
                Ok(Ok(s)) => s,
                _ => {
                    loc.rep.harness_error(format!("c13: piece {:?} of {:?} does not render on its own", p.spec, f.text));
                    return;
                }
            };
            joined.push_str(&s);
            match p.kind {
                _ if do_ws && (p.spec == "%r" || p.spec == "%c") => {
                    let t = if do_case { flip_case(rng, &s) } else { s.clone() };
                    let mut prev_space = false;
                    for ch in t.chars() {
                        if prev_space && ch != ' ' {
                            pert.push_str(&random_ws(rng, 1));
                        }
                        prev_space = ch == ' ';
                        pert.push(ch);
                    }
                }
                PK::Name if do_case => pert.push_str(&flip_case(rng, &s)),
                PK::Ws if do_ws => {
                    let (a, b) = if rng.chance(1, 2) { (1, 0) } else { (0, 1) };
                    pert.push_str(&random_ws(rng, a));
                    pert.push_str(&s);
                    pert.push_str(&random_ws(rng, b));
                }
                _ => pert.push_str(&s),
            }
        }
        if joined != text {
            loc.rep.harness_error(format!("c13: pieces of {:?} render {:?}, whole format renders {:?}", f.text, joined, text));
            return;
        }
        if do_case {
            loc.bucket(x.case);
        }
        if do_ws {
            loc.bucket(x.space);
        }
        let variant = match (do_case, do_ws) {
            (true, true) => "perturbed-case+space",
            (true, false) => "perturbed-case",
            _ => "perturbed-space",
        };
        let r = guard(|| parse_plain(f.target, &pert, &f.text));
        settle(loc, f, v, class, "parse_from_str", variant, &pert, r);
    }
}

// ------------------------------------------------------------------------------------------------
// Phases
// ------------------------------------------------------------------------------------------------

fn check_format_parses(rep: &Report, f: &Fmt) -> bool {
    match guard(|| StrftimeItems::new(&f.text).parse().is_ok()) {
        Ok(true) => true,
        _ => {
            rep.harness_error(format!("c13 generator produced a format the specifier table rejects: {:?}", f.text));
            false
        }
    }
}

fn phase_canonical(ctx: &Ctx, rep: &Report, cats: &Cats) {
    let mut rng0 = Rng::new(0, "C13/canonical-formats", 0);
    let fmts = canonical(&mut rng0);
    let per = ctx.n(4000, 150_000);
    let x = vix();
    par_shards(rep, ctx.threads, fmts.len(), |shard| {
        let f = &fmts[shard];
        if !check_format_parses(rep, f) {
            return;
        }
        let mut loc = rep.local();
        let mut rng = Rng::new(ctx.seed, "C13/canonical", shard as u64);
        for _ in 0..per {
            let v = gen_val(&mut rng, f, cats);
            run_case(&mut loc, &x, &mut rng, f, &v);
        }
    });
}

fn phase_generated(ctx: &Ctx, rep: &Report, cats: &Cats) {
    let n_formats = ctx.n(12_800, 256_000);
    let per_format = ctx.n(600, 800);
    let n_shards = 256usize;
    let per_shard = (n_formats as usize).div_ceil(n_shards);
    let x = vix();
    let listed = std::sync::Mutex::new(Vec::<String>::new());
    par_shards(rep, ctx.threads, n_shards, |shard| {
        let mut loc = rep.local();
        let mut rng = Rng::new(ctx.seed, "C13/generated", shard as u64);
        for k in 0..per_shard {
            let target = match (shard + k) % 8 {
                0 | 1 => Target::Date,
                2 => Target::Time,
                3 | 4 => Target::Naive,
                _ => Target::Zoned,
            };
            let f = gen_format(&mut rng, target);
            if !check_format_parses(rep, &f) {
                continue;
            }
            if k < 2 && shard < 12 {
                listed.lock().unwrap().push(f.text.clone());
            }
            for _ in 0..per_format {
                let v = gen_val(&mut rng, &f, cats);
                run_case(&mut loc, &x, &mut rng, &f, &v);
            }
        }
    });
    rep.set_extra("generated_formats", json!(per_shard * n_shards));
    rep.set_extra("generated_format_examples", json!(listed.into_inner().unwrap()));
}

/// `%Z`, `%::z`, `%:::z` (print-only) and `%#z` (read-only).
fn phase_print_read_only(ctx: &Ctx, rep: &Report, cats: &Cats) {
    let n = ctx.n(200_000, 6_000_000);
    let n_shards = 64usize;
    let per = n.div_ceil(n_shards as u64);
    let (b_zo, b_za, b_zn, b_c2, b_c3, b_hz, b_hc, b_hh) = (
        bi("x_tzname_with_offset"),
        bi("x_tzname_alone_rejected"),
        bi("x_tzname_skipped_naive"),
        bi("x_colon2_print_only"),
        bi("x_colon3_print_only"),
        bi("x_hash_z_reads_z"),
        bi("x_hash_z_reads_colon_z"),
        bi("x_hash_z_reads_hours_only"),
    );
    const WALLS: &[(&str, Prec)] = &[
        ("%Y-%m-%d %H:%M:%S", Prec::Sec),
        ("%Y-%m-%dT%H:%M:%S%.f", Prec::Ns),
        ("%d %b %Y %H:%M:%S%.3f", Prec::Ms),
        ("%Y-%j %I:%M:%S %p", Prec::Sec),
        ("%a %F %R", Prec::Min),
    ];
    par_shards(rep, ctx.threads, n_shards, |shard| {
        let mut loc = rep.local();
        let mut rng = Rng::new(ctx.seed, "C13/print-read-only", shard as u64);
        let mut dummy = Rng::new(0, "C13/describe", 0);
        let base = describe(&mut dummy, "%Y-%m-%d %H:%M:%S%.f %z", Target::Zoned, "canonical", None);
        for _ in 0..per {
            let mut v = gen_val(&mut rng, &base, cats);
            if !rc::in_range_day(v.wall.day) {
                continue;
            }
            let (wf, prec) = *rng.pick(WALLS);
            let which = rng.below(8);
            if which >= 5 && rng.chance(1, 2) {
                // whole-hour offsets make `%:::z` exact
                v.off -= v.off % 3600;
                if !rc::in_range_day(shift(v.wall, v.off).day) {
                    continue;
                }
            }
            let cv = match guard(|| build(Target::Zoned, &v)) {
                Ok(Some(cv)) => cv,
                _ => {
                    rep.harness_error(format!("c13: cannot construct {:?}", v));
                    continue;
                }
            };
            let e_wall = trunc(v.wall, prec);
            let wall_of = |g: &Got| shift(RDt::new(g.day, g.secs, g.frac), -g.off);
            let show = |g: &Result<Got, ParseError>| format!("{:?}", g.as_ref().map_err(|e| e.kind()));
            let (pf, rf): (String, String) = match which {
                0 => (format!("{} %z %Z", wf), String::new()),
                1 => (format!("{} %Z %:z", wf), String::new()),
                2 => (format!("{} %Z", wf), String::new()),
                3 => (format!("{} %::z", wf), String::new()),
                4 => (format!("{}%:::z", wf), String::new()),
                5 => (format!("{} %z", wf), format!("{} %#z", wf)),
                6 => (format!("{}%:z", wf), format!("{}%#z", wf)),
                _ => (format!("{} %:::z", wf), format!("{} %#z", wf)),
            };
            let rf = if rf.is_empty() { pf.clone() } else { rf };
            let text = match guard(|| render(&cv, &pf)) {
                Ok(Ok(s)) => s,
                Ok(Err(())) => {
                    loc.eval();
                    loc.violation("C13/DateTime::format/print-only-specifiers/fmt-error", json!({"format": pf, "value": show_val(&base, &v)}));
                    continue;
                }
                Err(p) => {
                    loc.eval();
                    loc.violation(&format!("C13/DateTime::format/panic@{}", p.site()), json!({"format": pf, "value": show_val(&base, &v), "panic": p.to_json()}));
                    continue;
                }
            };
            loc.eval();
            let r = match guard(|| parse_plain(Target::Zoned, &text, &rf)) {
                Ok(r) => r,
                Err(p) => {
                    loc.violation(&format!("C13/DateTime::parse_from_str/panic@{}", p.site()), json!({"format": rf, "text": text, "panic": p.to_json()}));
                    continue;
                }
            };
            let wit = |what: &str, r: &Result<Got, ParseError>| json!({"print_format": pf, "read_format": rf, "value": show_val(&base, &v), "text": text, "expected": what, "observed": show(r)});
            match which {
                0 | 1 => {
                    // `%Z` prints something without white space and is skipped by the reader
                    loc.bucket(b_zo);
                    let ok = matches!(&r, Ok(g) if wall_of(g) == e_wall && offset_ok_minutes(g.off, v.off));
                    if !ok {
                        loc.violation("C13/DateTime::parse_from_str/%Z-next-to-offset/not-inverted", wit("the value (the %Z text is skipped)", &r));
                    }
                }
                2 => {
                    // documented: `%Z` does not populate the offset, so a DateTime cannot result
                    loc.bucket(b_za);
                    if r.is_ok() {
                        loc.violation("C13/DateTime::parse_from_str/%Z-alone/accepted", wit("Err (no offset in the input)", &r));
                    }
                    // ... while the naive reader, which ignores offsets, must skip it
                    loc.eval();
                    loc.bucket(b_zn);
                    match guard(|| parse_plain(Target::Naive, &text, &rf)) {
                        Ok(rn) => {
                            let ok = matches!(&rn, Ok(g) if RDt::new(g.day, g.secs, g.frac) == e_wall);
                            if !ok {
                                loc.violation("C13/NaiveDateTime::parse_from_str/%Z-skipped/not-inverted", wit("the local date-time", &rn));
                            }
                        }
                        Err(p) => loc.violation(&format!("C13/NaiveDateTime::parse_from_str/panic@{}", p.site()), json!({"format": rf, "text": text, "panic": p.to_json()})),
                    }
                }
                3 | 4 => {
                    // print-only: nothing is promised about acceptance, but an accepted text must
                    // not come back as a different local date-time or a different offset
                    let (bk, lim) = if which == 3 { (b_c2, 60) } else { (b_c3, 3600) };
                    loc.bucket(bk);
                    if let Ok(g) = &r {
                        if wall_of(g) != e_wall || (g.off - v.off).abs() >= lim {
                            loc.violation(
                                if which == 3 { "C13/DateTime::parse_from_str/%::z-print-only/accepted-as-other-value" } else { "C13/DateTime::parse_from_str/%:::z-print-only/accepted-as-other-value" },
                                wit("Err, or the value up to the printed precision", &r),
                            );
                        }
                    }
                }
                5 | 6 => {
                    loc.bucket(if which == 5 { b_hz } else { b_hc });
                    let ok = matches!(&r, Ok(g) if wall_of(g) == e_wall && offset_ok_minutes(g.off, v.off));
                    if !ok {
                        loc.violation("C13/DateTime::parse_from_str/%#z-reads-minutes/not-inverted", wit("the value (offset to the minute)", &r));
                    }
                }
                _ => {
                    loc.bucket(b_hh);
                    let ok = matches!(&r, Ok(g) if wall_of(g) == e_wall && g.off % 3600 == 0 && (g.off - v.off).abs() < 3600 && (v.off % 3600 != 0 || g.off == v.off));
                    if !ok {
                        loc.violation("C13/DateTime::parse_from_str/%#z-reads-hours-only/not-inverted", wit("the value (offset to the hour)", &r));
                    }
                }
            }
        }
    });
}

/// A zone whose offset varies (`zones::StepTz`: +01:00 / +02:00 with a gap and a fold in 2021):
/// a `DateTime<StepTz>` printed with a format that carries the offset must read back, through the
/// zone-side routes `TimeZone::datetime_from_str` (deprecated) and `format::parse` +
/// `Parsed::to_datetime_with_timezone`, as the same instant with the same offset — inside the fold
/// the printed offset is what tells the two instants of one wall clock apart. A format without an
/// offset is judged only where the wall clock denotes one instant of the zone.
#[allow(deprecated)]
fn phase_user_zone(ctx: &Ctx, rep: &Report) {
    use crate::zones::{step_candidates, step_off, StepTz, STEP_T0, STEP_T1};
    use chrono::{Offset, Utc};
    const WITH_OFF: &[&str] = &[
        "%Y-%m-%d %H:%M:%S %z", "%Y-%m-%dT%H:%M:%S%:z", "%d/%m/%Y %I:%M:%S %p %:z", "%G-W%V-%u %T %z", "%Y %j %H%M%S%z",
        "%a, %d %b %Y %H:%M:%S %z", "%Y-%m-%d %H:%M:%S%.f %:z", "%+", "%c %z", "%y%m%d %R:%S %:z", "%B %e %Y %r %z",
    ];
    const NO_OFF: &[&str] = &["%Y-%m-%d %H:%M:%S", "%Y-%m-%dT%H:%M:%S%.f", "%d/%m/%Y %I:%M:%S %p", "%c"];
    let (b_f1, b_f2, b_plain, b_nooff) = (bi("uz_in_fold_first"), bi("uz_in_fold_second"), bi("uz_plain"), bi("uz_no_offset_in_format"));
    let n_shards = 32usize;
    let per = ctx.n(600, 20_000) / n_shards as u64 + 1;
    par_shards(rep, ctx.threads, n_shards, |shard| {
        let mut rng = Rng::new(ctx.seed, "C13/user-zone", shard as u64);
        let mut loc = rep.local();
        for _ in 0..per {
            // instants: around the two transitions (±2.5 h, any second), elsewhere in 2020..2022
            let u = match rng.below(4) {
                0 => STEP_T1 - 9000 + rng.below(18000) as i64,
                1 => STEP_T0 - 9000 + rng.below(18000) as i64,
                2 => STEP_T1 - 3600 + rng.below(7200) as i64,
                _ => 1_577_836_800 + rng.below(3 * 366 * 86400) as i64,
            };
            let off = step_off(u);
            let l = u + off as i64;
            let cands = step_candidates(l);
            let Some(utc) = Utc.timestamp_opt(u, 0).single() else { continue };
            let dt = utc.with_timezone(&StepTz);
            let in_fold = cands.len() == 2;
            for (fmts, has_off) in [(WITH_OFF, true), (NO_OFF, false)] {
                let fmt = fmts[rng.below(fmts.len() as u64) as usize];
                if !has_off && cands.len() != 1 {
                    continue;
                }
                loc.eval();
                loc.bucket(if !has_off { b_nooff } else if in_fold && cands[0] == off { b_f1 } else if in_fold { b_f2 } else { b_plain });
                if in_fold {
                    loc.nontrivial(h2(hstr(fmt), u as u64));
                }
                let text = match guard(|| dt.format(fmt).to_string()) {
                    Ok(t) => t,
                    Err(p) => {
                        loc.violation(&format!("C13/DateTime<user zone>::format/panic@{}", p.site()), json!({"format": fmt, "instant": u}));
                        continue;
                    }
                };
                type R = Result<(i64, i32), String>;
                let routes: [(&str, Box<dyn Fn() -> R + '_>); 2] = [
                    ("TimeZone::datetime_from_str<user zone>", Box::new(|| StepTz.datetime_from_str(&text, fmt).map(|x| (x.timestamp(), x.offset().fix().local_minus_utc())).map_err(|e| format!("{:?}", e)))),
                    (
                        "parse+Parsed::to_datetime_with_timezone<user zone>",
                        Box::new(|| {
                            let mut parsed = Parsed::new();
                            chrono::format::parse(&mut parsed, &text, StrftimeItems::new(fmt)).map_err(|e| format!("parse: {:?}", e))?;
                            parsed.to_datetime_with_timezone(&StepTz).map(|x| (x.timestamp(), x.offset().fix().local_minus_utc())).map_err(|e| format!("{:?}", e))
                        }),
                    ),
                ];
                for (entry, f) in routes.iter() {
                    let class = if !has_off { "format-without-offset/unambiguous-wall-clock" } else if in_fold { "wall-clock-in-fold" } else { "ordinary-wall-clock" };
                    match guard(|| f()) {
                        Err(p) => loc.violation(&format!("C13/{}/panic@{}", entry, p.site()), json!({"format": fmt, "text": text, "instant": u})),
                        Ok(Ok((t, o))) if t == u && o == off => {}
                        Ok(Ok((t, o))) => loc.violation(
                            &format!("C13/{}/{}/reads-back-as-another-instant-or-offset", entry, class),
                            json!({"format": fmt, "text": text, "expected": {"timestamp": u, "offset": off}, "observed": {"timestamp": t, "offset": o}}),
                        ),
                        Ok(Err(e)) => loc.violation(
                            &format!("C13/{}/{}/own-output-rejected", entry, class),
                            json!({"format": fmt, "text": text, "expected": {"timestamp": u, "offset": off}, "error": e}),
                        ),
                    }
                }
                loc.sample(|| json!({"route": "user zone", "format": fmt, "text": text, "instant": u, "offset": off, "in_fold": in_fold}));
            }
        }
    });
}

pub fn run(ctx: &Ctx) -> Outcome {
    let rep = Report::with_bitmap_bits("C13", B, FLOOR, 28);
    for t in [rc::self_test(), ri::self_test(), self_test()] {
        if let Err(e) = t {
            rep.harness_error(e);
            return rep.finish(ctx, "self-test failed", &[]);
        }
    }
    let cats = Cats { days: gen::catalogue_days(), offs: gen::catalogue_offsets() };
    phase_canonical(ctx, &rep, &cats);
    phase_generated(ctx, &rep, &cats);
    phase_print_read_only(ctx, &rep, &cats);
    phase_user_zone(ctx, &rep);
    rep.finish(
        ctx,
        "formats: a fixed list of hand-written formats plus formats assembled by a seeded grammar (date part x time part x zone part, every numeric specifier with every padding modifier, literal / %% / white-space / no separators, redundant consistent fields); values per format: boundary-biased random (R-cal catalogue days +-3, uniform days, catalogue seconds, leap seconds on :59, catalogue and random offsets, wall clocks one step outside NaiveDate's range) restricted to the domain the format can express; each case = format the value, parse the text back (parse_from_str, parse_and_remainder, and a case/white-space perturbed text) and compare with the value truncated to the printed precision; a case is non-trivial if its value is in a boundary class the format prints (negative / 5+ digit / <1000 year, pivot years, leap second, hour 0/12, zero fraction, negative / zero / seconds-bearing offset, negative timestamp, ordinal 366 or <100, week 0/53, ISO spill day, single-digit day, range end); distinct = distinct (format, value) pairs among those (hashed bitmap, collisions under-count)",
        &[
            "R-cal / R-inst (harness/src/refcal.rs, refinst.rs) are correct: self-tested at the start of every run",
            "a leap second is expressible only as second 60, i.e. on wall-clock second 59 (a leap representation on another second prints as the following second)",
            "`%C` and `%y` together express years 0..=9999; a lone `%y`/`%g`/`%D`/`%x` expresses 1970..=2069; `%s` without clock fields expresses non-leap instants only",
            "an offset printed by `%z`/`%:z`/`%+` is compared to the minute: exact for whole-minute offsets, otherwise a whole-minute offset less than 60 s away with the same local date-time",
            "`%s` without an offset specifier: only the instant is compared unless the value's own offset is zero",
        ],
    )
}
