//! C10 — RFC 3339 output is conformant and input acceptance is exact.
//!
//! Two monitors, both against oracles written from the property text / RFC 3339 §5.6 and
//! independent of chrono's scanner:
//!
//! * **Writer**: for date-times with wall year 0..=9999 and a whole-minute offset, all five
//!   `SecondsFormat`s × `use_z`: `to_rfc3339_opts` must equal the reference rendering built from
//!   R-cal fields (fraction *truncated* to the requested precision, `Z` iff `use_z` and offset 0),
//!   the output must be accepted by the reference recogniser, and `parse_from_rfc3339` of it must
//!   give the same offset and the instant truncated to the printed precision. Same for
//!   `to_rfc3339()`, `%+` and `Item::Fixed(Fixed::RFC3339)`, and for `DateTime<Utc>`.
//! * **Reader (exact acceptance)**: `recognise()` implements
//!   `4DIGIT-2DIGIT-2DIGIT (T|t|SP) 2DIGIT:2DIGIT:2DIGIT [. 1*DIGIT] (Z|z|(+|-|U+2212) 2DIGIT:2DIGIT)`
//!   over ASCII digits, then month 1..=12, day valid for month/year, hour ≤ 23, minute ≤ 59,
//!   second ≤ 60, offset hour ≤ 23, offset minute ≤ 59. `parse_from_rfc3339(s)` must be `Ok` iff
//!   the recogniser accepts and must then equal the denoted value. Any disagreement in either
//!   direction is a violation.
//!
//! Ambiguity table (what the oracle deliberately does NOT assert / tolerates):
//! * second 60 is accepted on any minute (property: "second ≤ 60"), denoting chrono's leap
//!   representation (second 59, nanosecond ≥ 1e9);
//! * `-00:00` (and U+2212 `00:00`) denotes offset 0; `t`, `z`, space are accepted on input;
//! * fraction digits beyond the ninth are ignored (truncated), any number of digits is accepted;
//! * the *kind* of the parse error is never asserted, only that it is an error;
//! * writer: leap-second representations are only generated on wall second :59 (the only ones RFC
//!   3339 can denote as :60), offsets only whole minutes, wall years only 0..=9999 (the property's
//!   quantifier); nothing is asserted outside that domain.

use crate::gen;
use crate::mon::{h2, hstr, par_shards, Ctx, Local, Outcome, Report, Tier};
use crate::refcal as rc;
use crate::refinst::{self as ri, RDt};
use crate::rng::Rng;
use chrono::format::{Fixed, Item};
use chrono::{DateTime, FixedOffset, NaiveDateTime, SecondsFormat, TimeZone, Utc};
use serde_json::{json, Value};
use std::sync::atomic::{AtomicUsize, Ordering};

/// at most six of the written-out samples come from the writer monitor
static W_SAMPLES: AtomicUsize = AtomicUsize::new(0);

macro_rules! buckets {
    ($($id:ident),* $(,)?) => {
        #[allow(non_camel_case_types, dead_code)]
        #[derive(Clone, Copy)]
        #[repr(usize)]
        enum K { $($id),* }
        const B: &[&str] = &[$(stringify!($id)),*];
    };
}

buckets! {
    // writer
    w_secs, w_millis, w_micros, w_nanos, w_auto_0, w_auto_3, w_auto_6, w_auto_9,
    w_z_printed, w_use_z_nonzero_offset, w_no_z_zero_offset, w_leap_60, w_truncation_differs_from_rounding,
    w_fraction_all_nines, w_year_0, w_year_9999, w_year_below_1000, w_offset_negative, w_offset_positive,
    w_offset_extreme, w_offset_negative_below_1h, w_utc_type, w_item_and_strftime, w_to_rfc3339, w_roundtrip,
    w_utc_date_differs_from_wall, w_feb29,
    // reader: verdict and latitude
    r_accept, r_reject, r_sep_upper_t, r_sep_lower_t, r_sep_space, r_zulu_upper, r_zulu_lower, r_sign_plus,
    r_sign_hyphen, r_sign_u2212, r_offset_minus_zero, r_frac_none, r_frac_1_to_8, r_frac_9, r_frac_over_9,
    r_second_60, r_feb29_accept, r_offset_2359, r_year_0000, r_year_9999,
    // reader: reject reasons (from the recogniser)
    r_rej_year, r_rej_date_sep, r_rej_month, r_rej_day, r_rej_separator, r_rej_hour, r_rej_time_colon,
    r_rej_minute, r_rej_second, r_rej_fraction, r_rej_offset_lead, r_rej_offset_hour, r_rej_offset_colon,
    r_rej_offset_minute, r_rej_trailing, r_rej_month_range, r_rej_day_range, r_rej_feb29_common_year,
    r_rej_hour_range, r_rej_minute_range, r_rej_second_range, r_rej_offset_hour_range, r_rej_offset_minute_range,
    // reader: origin of the string
    r_generated_valid, r_mut_delete, r_mut_replace, r_mut_insert, r_mut_swap, r_mut_still_accepted,
    r_mut_rejected, r_near_miss, r_date_space, r_time_space, r_offset_space, r_fraction_space, r_arbitrary,
    r_multibyte_input, r_empty, r_writer_output,
}

const FLOOR: &[&str] = B;

#[inline]
fn bk(loc: &mut Local, k: K) {
    loc.bucket(k as usize)
}

// ------------------------------------------------------------------------------------------------
// Reference recogniser (R-fmt, RFC 3339 date-time with the documented latitude)
// ------------------------------------------------------------------------------------------------

#[derive(Clone, Copy, Debug, PartialEq, Eq)]
enum Rej {
    // syntax: the element at which the string stops matching the grammar
    Year,
    DateSep,
    Month,
    Day,
    Separator,
    Hour,
    TimeColon,
    Minute,
    Second,
    Fraction,
    OffsetLead,
    OffsetHour,
    OffsetColon,
    OffsetMinute,
    Trailing,
    // semantics: grammar matched, but the fields do not denote an existing value
    MonthRange,
    DayRange,
    HourRange,
    MinuteRange,
    SecondRange,
    OffsetHourRange,
    OffsetMinuteRange,
}

impl Rej {
    fn name(self) -> &'static str {
        match self {
            Rej::Year => "year-not-4-digits",
            Rej::DateSep => "date-separator",
            Rej::Month => "month-not-2-digits",
            Rej::Day => "day-not-2-digits",
            Rej::Separator => "date-time-separator",
            Rej::Hour => "hour-not-2-digits",
            Rej::TimeColon => "time-colon",
            Rej::Minute => "minute-not-2-digits",
            Rej::Second => "second-not-2-digits",
            Rej::Fraction => "fraction-without-digits",
            Rej::OffsetLead => "offset-missing-or-bad-lead",
            Rej::OffsetHour => "offset-hour-not-2-digits",
            Rej::OffsetColon => "offset-colon",
            Rej::OffsetMinute => "offset-minute-not-2-digits",
            Rej::Trailing => "trailing-text",
            Rej::MonthRange => "month-out-of-range",
            Rej::DayRange => "day-does-not-exist",
            Rej::HourRange => "hour-over-23",
            Rej::MinuteRange => "minute-over-59",
            Rej::SecondRange => "second-over-60",
            Rej::OffsetHourRange => "offset-hour-over-23",
            Rej::OffsetMinuteRange => "offset-minute-over-59",
        }
    }
    fn bucket(self) -> K {
        match self {
            Rej::Year => K::r_rej_year,
            Rej::DateSep => K::r_rej_date_sep,
            Rej::Month => K::r_rej_month,
            Rej::Day => K::r_rej_day,
            Rej::Separator => K::r_rej_separator,
            Rej::Hour => K::r_rej_hour,
            Rej::TimeColon => K::r_rej_time_colon,
            Rej::Minute => K::r_rej_minute,
            Rej::Second => K::r_rej_second,
            Rej::Fraction => K::r_rej_fraction,
            Rej::OffsetLead => K::r_rej_offset_lead,
            Rej::OffsetHour => K::r_rej_offset_hour,
            Rej::OffsetColon => K::r_rej_offset_colon,
            Rej::OffsetMinute => K::r_rej_offset_minute,
            Rej::Trailing => K::r_rej_trailing,
            Rej::MonthRange => K::r_rej_month_range,
            Rej::DayRange => K::r_rej_day_range,
            Rej::HourRange => K::r_rej_hour_range,
            Rej::MinuteRange => K::r_rej_minute_range,
            Rej::SecondRange => K::r_rej_second_range,
            Rej::OffsetHourRange => K::r_rej_offset_hour_range,
            Rej::OffsetMinuteRange => K::r_rej_offset_minute_range,
        }
    }
}

/// What an accepted string denotes, plus how it was written.
#[derive(Clone, Copy, Debug, PartialEq, Eq)]
struct Den {
    y: i64,
    mo: i64,
    d: i64,
    h: i64,
    mi: i64,
    s: i64,
    /// nanoseconds from the first nine fraction digits (further digits ignored)
    frac: i64,
    frac_digits: usize,
    /// seconds east of UTC
    off: i64,
    sep: u8,
    /// b'Z' / b'z' if written as zulu, else 0
    zulu: u8,
    /// '+', '-' or U+2212 for numeric offsets, else '\0'
    sign: char,
}

impl Den {
    /// wall-clock reading in R-inst form (second 60 = leap representation on second 59)
    fn local(&self) -> RDt {
        let (s, leap) = if self.s == 60 { (59, 1_000_000_000) } else { (self.s, 0) };
        RDt::new(rc::day_number(self.y, self.mo, self.d), self.h * 3600 + self.mi * 60 + s, self.frac + leap)
    }
}

/// wall reading minus offset (leap flag carried over; offsets are whole minutes here)
fn utc_of(local: RDt, off: i64) -> RDt {
    let leap = if local.is_leap() { 1_000_000_000 } else { 0 };
    let base = RDt::new(local.day, local.secs, local.frac - leap);
    let mut u = RDt::from_ns(base.ns() - off as i128 * ri::NS);
    u.frac += leap;
    u
}

#[inline]
fn digits(b: &[u8], at: usize, n: usize) -> Option<i64> {
    if b.len() < at + n {
        return None;
    }
    let mut v = 0i64;
    for &c in &b[at..at + n] {
        if !c.is_ascii_digit() {
            return None;
        }
        v = v * 10 + (c - b'0') as i64;
    }
    Some(v)
}

/// The reference recogniser. Works on the UTF-8 bytes: every token of the grammar is ASCII except
/// U+2212 (E2 88 92), and ASCII bytes never occur inside a multi-byte sequence, so a byte-wise
/// match is a character-wise match.
fn recognise(b: &[u8]) -> Result<Den, Rej> {
    let y = digits(b, 0, 4).ok_or(Rej::Year)?;
    if b.get(4) != Some(&b'-') {
        return Err(Rej::DateSep);
    }
    let mo = digits(b, 5, 2).ok_or(Rej::Month)?;
    if b.get(7) != Some(&b'-') {
        return Err(Rej::DateSep);
    }
    let d = digits(b, 8, 2).ok_or(Rej::Day)?;
    let sep = match b.get(10) {
        Some(&c) if c == b'T' || c == b't' || c == b' ' => c,
        _ => return Err(Rej::Separator),
    };
    let h = digits(b, 11, 2).ok_or(Rej::Hour)?;
    if b.get(13) != Some(&b':') {
        return Err(Rej::TimeColon);
    }
    let mi = digits(b, 14, 2).ok_or(Rej::Minute)?;
    if b.get(16) != Some(&b':') {
        return Err(Rej::TimeColon);
    }
    let s = digits(b, 17, 2).ok_or(Rej::Second)?;
    let mut i = 19;
    let mut frac = 0i64;
    let mut frac_digits = 0usize;
    if b.get(i) == Some(&b'.') {
        i += 1;
        while let Some(&c) = b.get(i) {
            if !c.is_ascii_digit() {
                break;
            }
            if frac_digits < 9 {
                frac = frac * 10 + (c - b'0') as i64;
            }
            frac_digits += 1;
            i += 1;
        }
        if frac_digits == 0 {
            return Err(Rej::Fraction);
        }
        for _ in frac_digits..9 {
            frac *= 10;
        }
    }
    let mut zulu = 0u8;
    let mut sign = '\0';
    let (oh, om);
    match b.get(i) {
        Some(&c) if c == b'Z' || c == b'z' => {
            zulu = c;
            i += 1;
            oh = 0;
            om = 0;
        }
        Some(&c) => {
            if c == b'+' {
                sign = '+';
                i += 1;
            } else if c == b'-' {
                sign = '-';
                i += 1;
            } else if b.len() >= i + 3 && b[i] == 0xE2 && b[i + 1] == 0x88 && b[i + 2] == 0x92 {
                sign = '\u{2212}';
                i += 3;
            } else {
                return Err(Rej::OffsetLead);
            }
            oh = digits(b, i, 2).ok_or(Rej::OffsetHour)?;
            i += 2;
            if b.get(i) != Some(&b':') {
                return Err(Rej::OffsetColon);
            }
            i += 1;
            om = digits(b, i, 2).ok_or(Rej::OffsetMinute)?;
            i += 2;
        }
        None => return Err(Rej::OffsetLead),
    }
    if i != b.len() {
        return Err(Rej::Trailing);
    }
    // the fields must denote an existing date, time of day and offset
    if !(1..=12).contains(&mo) {
        return Err(Rej::MonthRange);
    }
    if d < 1 || d > rc::days_in_month(y, mo) {
        return Err(Rej::DayRange);
    }
    if h > 23 {
        return Err(Rej::HourRange);
    }
    if mi > 59 {
        return Err(Rej::MinuteRange);
    }
    if s > 60 {
        return Err(Rej::SecondRange);
    }
    if oh > 23 {
        return Err(Rej::OffsetHourRange);
    }
    if om > 59 {
        return Err(Rej::OffsetMinuteRange);
    }
    let mag = oh * 3600 + om * 60;
    let off = if sign == '-' || sign == '\u{2212}' { -mag } else { mag };
    Ok(Den { y, mo, d, h, mi, s, frac, frac_digits, off, sep, zulu, sign })
}

fn recogniser_self_test() -> Result<(), String> {
    let acc: &[(&str, (i64, i64, i64, i64, i64, i64, i64, i64))] = &[
        ("1996-12-19T16:39:57-08:00", (1996, 12, 19, 16, 39, 57, 0, -28800)),
        ("1990-12-31T23:59:60Z", (1990, 12, 31, 23, 59, 60, 0, 0)),
        ("2015-01-20T17:35:20.001-08:00", (2015, 1, 20, 17, 35, 20, 1_000_000, -28800)),
        ("2015-01-20t17:35:20z", (2015, 1, 20, 17, 35, 20, 0, 0)),
        ("2015-01-20 17:35:20\u{2212}08:30", (2015, 1, 20, 17, 35, 20, 0, -30600)),
        ("0000-02-29T00:00:00.1234567891239+23:59", (0, 2, 29, 0, 0, 0, 123_456_789, 86340)),
        ("2000-01-01T00:00:60.5-00:00", (2000, 1, 1, 0, 0, 60, 500_000_000, 0)),
        ("9999-12-31T23:59:59.999999999-23:59", (9999, 12, 31, 23, 59, 59, 999_999_999, -86340)),
        ("1937-01-01T12:00:27.87+00:20", (1937, 1, 1, 12, 0, 27, 870_000_000, 1200)),
    ];
    for (s, v) in acc {
        match recognise(s.as_bytes()) {
            Ok(d) if (d.y, d.mo, d.d, d.h, d.mi, d.s, d.frac, d.off) == *v => {}
            other => return Err(format!("recogniser self-test: {:?} -> {:?}", s, other)),
        }
    }
    let rej: &[(&str, Rej)] = &[
        ("", Rej::Year),
        ("2015-01-20T17:35:20", Rej::OffsetLead),
        ("2015-01-20T17:35:20+0800", Rej::OffsetColon),
        ("2015-01-20T17:35:20+08", Rej::OffsetColon),
        ("2015-1-20T17:35:20Z", Rej::Month),
        ("2015-01-2T17:35:20Z", Rej::Day),
        ("15-01-20T17:35:20Z", Rej::Year),
        ("+2015-01-20T17:35:20Z", Rej::Year),
        ("12015-01-20T17:35:20Z", Rej::DateSep),
        ("2015-02-29T17:35:20Z", Rej::DayRange),
        ("2016-02-30T17:35:20Z", Rej::DayRange),
        ("1900-02-29T17:35:20Z", Rej::DayRange),
        ("2015-00-20T17:35:20Z", Rej::MonthRange),
        ("2015-13-20T17:35:20Z", Rej::MonthRange),
        ("2015-01-00T17:35:20Z", Rej::DayRange),
        ("2015-01-20T24:00:00Z", Rej::HourRange),
        ("2015-01-20T17:60:00Z", Rej::MinuteRange),
        ("2015-01-20T17:35:61Z", Rej::SecondRange),
        ("2015-01-20T17:35:20+24:00", Rej::OffsetHourRange),
        ("2015-01-20T17:35:20-23:60", Rej::OffsetMinuteRange),
        ("2015-01-20T17:35:20.Z", Rej::Fraction),
        ("2015-01-20T17:35:20,5Z", Rej::OffsetLead),
        ("2015-01-20T17:35:20Z ", Rej::Trailing),
        (" 2015-01-20T17:35:20Z", Rej::Year),
        ("2015-01-20T17:35:20ZZ", Rej::Trailing),
        ("2015-01-20_17:35:20Z", Rej::Separator),
        ("2015-01-20T17:35:20 Z", Rej::OffsetLead),
        ("2015-01-20T17:35:20+08:00:00", Rej::Trailing),
        ("2015-01-20T17:35Z", Rej::TimeColon),
        ("2015-01-20T17:35:2\u{0660}Z", Rej::Second),
        ("2015-01-20T17:35:20.5\u{0660}Z", Rej::OffsetLead),
        ("2015-01-20T17:35:20\u{2013}08:00", Rej::OffsetLead),
        ("2015-01-20T17:35:20UTC", Rej::OffsetLead),
    ];
    for (s, r) in rej {
        match recognise(s.as_bytes()) {
            Err(e) if e == *r => {}
            other => return Err(format!("recogniser self-test: {:?} -> {:?}, expected {:?}", s, other, r)),
        }
    }
    // utc_of
    let l = RDt::new(rc::day_number(2000, 1, 1), 30, 1_500_000_000);
    if utc_of(l, 3600) != RDt::new(rc::day_number(1999, 12, 31), 82830, 1_500_000_000) {
        return Err("utc_of self-test".into());
    }
    // reference renderer
    let l = RDt::new(rc::day_number(2018, 1, 26), 18 * 3600 + 30 * 60 + 9, 453_829_000);
    let checks = [
        (Sf::Millis, false, 0, "2018-01-26T18:30:09.453+00:00"),
        (Sf::Millis, true, 0, "2018-01-26T18:30:09.453Z"),
        (Sf::Secs, true, 0, "2018-01-26T18:30:09Z"),
        (Sf::Secs, true, 8 * 3600, "2018-01-26T18:30:09+08:00"),
        (Sf::Auto, false, -(9 * 3600 + 30 * 60), "2018-01-26T18:30:09.453829-09:30"),
        (Sf::Nanos, true, -60, "2018-01-26T18:30:09.453829000-00:01"),
    ];
    for (sf, z, off, exp) in checks {
        if ref_render(l, off, sf, z) != exp {
            return Err(format!("reference renderer self-test: {}", exp));
        }
    }
    Ok(())
}

// ------------------------------------------------------------------------------------------------
// Reader monitor
// ------------------------------------------------------------------------------------------------

#[derive(Clone, Copy)]
struct Origin<'a> {
    kind: &'static str,
    base: Option<&'a str>,
    nontrivial: bool,
}

fn accept_feature(d: &Den) -> &'static str {
    if d.s == 60 {
        "second-60"
    } else if d.frac_digits > 9 {
        "fraction-over-9-digits"
    } else if d.frac_digits > 0 {
        "fraction"
    } else if d.sign == '\u{2212}' {
        "minus-sign-U+2212"
    } else if d.off == 0 && d.sign == '-' {
        "offset-minus-zero"
    } else if d.sep == b't' {
        "separator-lowercase-t"
    } else if d.sep == b' ' {
        "separator-space"
    } else if d.zulu == b'z' {
        "zulu-lowercase"
    } else if d.zulu == b'Z' {
        "zulu"
    } else if d.off.abs() >= 23 * 3600 {
        "offset-hour-23"
    } else if d.mo == 2 && d.d == 29 {
        "feb-29"
    } else if d.y == 0 {
        "year-0000"
    } else {
        "numeric-offset"
    }
}

/// One exact-acceptance case. Returns whether the recogniser accepted the string.
fn check_reader(loc: &mut Local, s: &str, origin: Origin) -> bool {
    loc.eval();
    let rec = recognise(s.as_bytes());
    let got = loc.call("parse_from_rfc3339", || json!({"input": s, "origin": origin.kind, "base": origin.base}), || DateTime::parse_from_rfc3339(s));
    if !s.is_ascii() {
        bk(loc, K::r_multibyte_input);
    }
    if origin.nontrivial {
        loc.nontrivial(hstr(s));
    }
    match &rec {
        Ok(d) => {
            bk(loc, K::r_accept);
            bk(loc, match d.sep {
                b'T' => K::r_sep_upper_t,
                b't' => K::r_sep_lower_t,
                _ => K::r_sep_space,
            });
            match d.zulu {
                b'Z' => bk(loc, K::r_zulu_upper),
                b'z' => bk(loc, K::r_zulu_lower),
                _ => {
                    bk(loc, match d.sign {
                        '+' => K::r_sign_plus,
                        '-' => K::r_sign_hyphen,
                        _ => K::r_sign_u2212,
                    });
                    if d.off == 0 && d.sign != '+' {
                        bk(loc, K::r_offset_minus_zero);
                    }
                    if d.off.abs() == 86340 {
                        bk(loc, K::r_offset_2359);
                    }
                }
            }
            bk(loc, match d.frac_digits {
                0 => K::r_frac_none,
                1..=8 => K::r_frac_1_to_8,
                9 => K::r_frac_9,
                _ => K::r_frac_over_9,
            });
            if d.s == 60 {
                bk(loc, K::r_second_60);
            }
            if d.mo == 2 && d.d == 29 {
                bk(loc, K::r_feb29_accept);
            }
            if d.y == 0 {
                bk(loc, K::r_year_0000);
            }
            if d.y == 9999 {
                bk(loc, K::r_year_9999);
            }
        }
        Err(r) => {
            bk(loc, K::r_reject);
            bk(loc, r.bucket());
            if *r == Rej::DayRange {
                // Feb 29 of a common year?
                let b = s.as_bytes();
                if &b[5..10] == b"02-29" {
                    bk(loc, K::r_rej_feb29_common_year);
                }
            }
        }
    }
    let got = match got {
        Some(g) => g,
        None => return rec.is_ok(), // panic already recorded
    };
    match (&rec, &got) {
        (Err(_), Err(_)) => {}
        (Err(r), Ok(dt)) => {
            loc.violation(
                &format!("C10/parse_from_rfc3339/accepts-non-rfc3339/{}", r.name()),
                json!({"input": s, "origin": origin.kind, "base": origin.base, "expected": format!("Err (reference recogniser: {})", r.name()),
                       "observed": format!("Ok({:?})", dt)}),
            );
        }
        (Ok(d), Err(e)) => {
            loc.violation(
                &format!("C10/parse_from_rfc3339/rejects-valid/{}/{:?}", accept_feature(d), e.kind()),
                json!({"input": s, "origin": origin.kind, "base": origin.base,
                       "expected": {"local": [d.y, d.mo, d.d, d.h, d.mi, d.s, d.frac], "offset_secs": d.off},
                       "observed": format!("Err({:?})", e.kind())}),
            );
        }
        (Ok(d), Ok(dt)) => {
            let exp_local = d.local();
            let exp_utc = utc_of(exp_local, d.off);
            let obs = loc.call("parse_from_rfc3339/accessors", || json!({"input": s}), || {
                (dt.offset().local_minus_utc() as i64, RDt::of(&dt.naive_local()), RDt::of(&dt.naive_utc()))
            });
            if let Some((o_off, o_local, o_utc)) = obs {
                if o_off != d.off || o_local != exp_local || o_utc != exp_utc {
                    let what = if o_off != d.off {
                        "offset"
                    } else if o_local.day != exp_local.day {
                        "date"
                    } else if o_local.secs != exp_local.secs {
                        "time-of-day"
                    } else if o_local.is_leap() != exp_local.is_leap() {
                        "leap-second"
                    } else if o_local.frac != exp_local.frac {
                        "fraction"
                    } else {
                        "instant"
                    };
                    loc.violation(
                        &format!("C10/parse_from_rfc3339/wrong-value/{}", what),
                        json!({"input": s, "origin": origin.kind, "base": origin.base,
                               "expected": {"offset_secs": d.off, "local": [exp_local.day, exp_local.secs, exp_local.frac], "utc": [exp_utc.day, exp_utc.secs, exp_utc.frac]},
                               "observed": {"offset_secs": o_off, "local": [o_local.day, o_local.secs, o_local.frac], "utc": [o_utc.day, o_utc.secs, o_utc.frac], "debug": format!("{:?}", dt)}}),
                    );
                }
            }
            if origin.base.is_some() {
                loc.sample(|| json!({"input": s, "origin": origin.kind, "parsed": format!("{:?}", dt), "reference": {"local_day_secs_frac": [exp_local.day, exp_local.secs, exp_local.frac], "offset_secs": d.off}}));
            }
        }
    }
    rec.is_ok()
}

// ---- generators ---------------------------------------------------------------------------------

struct Fields {
    y: i64,
    mo: i64,
    d: i64,
    h: i64,
    mi: i64,
    s: i64,
    frac_digits: String,
    sep: char,
    /// 'Z', 'z' or '\0'
    zulu: char,
    sign: char,
    oh: i64,
    om: i64,
}

impl Fields {
    fn render(&self) -> String {
        let mut s = format!("{:04}-{:02}-{:02}{}{:02}:{:02}:{:02}", self.y, self.mo, self.d, self.sep, self.h, self.mi, self.s);
        if !self.frac_digits.is_empty() {
            s.push('.');
            s.push_str(&self.frac_digits);
        }
        if self.zulu != '\0' {
            s.push(self.zulu);
        } else {
            s.push(self.sign);
            s.push_str(&format!("{:02}:{:02}", self.oh, self.om));
        }
        s
    }
    fn den_matches(&self, d: &Den) -> bool {
        let mut f = 0i64;
        let mut n = 0;
        for c in self.frac_digits.bytes().take(9) {
            f = f * 10 + (c - b'0') as i64;
            n += 1;
        }
        for _ in n..9 {
            f *= 10;
        }
        let mag = self.oh * 3600 + self.om * 60;
        let off = if self.zulu != '\0' {
            0
        } else if self.sign == '+' {
            mag
        } else {
            -mag
        };
        (d.y, d.mo, d.d, d.h, d.mi, d.s, d.frac, d.off) == (self.y, self.mo, self.d, self.h, self.mi, self.s, f, off)
    }
}

const YEARS: [i64; 24] = [0, 1, 4, 9, 10, 99, 100, 400, 999, 1000, 1582, 1600, 1900, 1969, 1970, 1999, 2000, 2001, 2024, 2038, 2100, 9000, 9998, 9999];

fn random_digits(rng: &mut Rng, n: usize) -> String {
    let mode = rng.below(8);
    let mut s = String::with_capacity(n);
    for i in 0..n {
        let c = match mode {
            0 => b'0',
            1 => b'9',
            2 => {
                if i == 0 {
                    b'1'
                } else {
                    b'0'
                }
            }
            3 => {
                if i + 1 == n {
                    b'1'
                } else {
                    b'0'
                }
            }
            _ => b'0' + rng.below(10) as u8,
        };
        s.push(c as char);
    }
    s
}

/// A string valid by construction, over the whole field space, using the whole documented latitude.
fn gen_valid(rng: &mut Rng) -> Fields {
    let y = match rng.below(4) {
        0 => *rng.pick(&YEARS),
        _ => rng.range(0, 9999),
    };
    let mo = match rng.below(4) {
        0 => *rng.pick(&[1i64, 2, 2, 12]),
        _ => rng.range(1, 12),
    };
    let dim = rc::days_in_month(y, mo);
    let d = match rng.below(4) {
        0 => *rng.pick(&[1i64, dim, dim, 28.min(dim), 9, 10]),
        _ => rng.range(1, dim),
    };
    let h = if rng.chance(1, 4) { *rng.pick(&[0i64, 9, 10, 12, 19, 20, 23]) } else { rng.range(0, 23) };
    let mi = if rng.chance(1, 4) { *rng.pick(&[0i64, 9, 10, 30, 59]) } else { rng.range(0, 59) };
    let s = match rng.below(8) {
        0 => 60,
        1 => *rng.pick(&[0i64, 9, 10, 59]),
        _ => rng.range(0, 59),
    };
    let nd = match rng.below(16) {
        0..=3 => 0,
        4..=9 => rng.range(1, 9) as usize,
        10..=11 => 9,
        12..=14 => rng.range(10, 14) as usize,
        _ => rng.range(15, 40) as usize,
    };
    let frac_digits = random_digits(rng, nd);
    let sep = *rng.pick(&['T', 'T', 't', ' ']);
    let zulu = match rng.below(8) {
        0..=1 => 'Z',
        2 => 'z',
        _ => '\0',
    };
    let sign = *rng.pick(&['+', '+', '-', '-', '\u{2212}']);
    let (oh, om) = match rng.below(6) {
        0 => *rng.pick(&[(0i64, 0i64), (23, 59), (23, 0), (0, 59), (0, 1), (12, 0), (14, 0), (5, 30), (9, 30), (19, 59), (20, 0)]),
        _ => (rng.range(0, 23), rng.range(0, 59)),
    };
    Fields { y, mo, d, h, mi, s, frac_digits, sep, zulu, sign, oh, om }
}

/// Characters used for single-edit replacement / insertion.
const ALPHABET: [char; 44] = [
    '0', '1', '2', '3', '4', '5', '6', '7', '8', '9', ':', '-', '+', '.', ',', 'T', 't', ' ', 'Z', 'z', '\u{2212}', '\t', '\n', '/', '_', 'a', 'W', 'U',
    '\0', '\u{ff11}', '\u{0661}', '\u{a0}', '\u{301}', '\u{1F920}', '\u{2013}', '\u{ff0b}', '\u{ff1a}', '\u{2010}', '\u{00b1}', '\u{200b}', '\u{feff}', 'e', '\r', '\u{7f}',
];

/// Every single-edit mutation of `base` (delete, replace with / insert each alphabet character,
/// swap neighbours), each compared with the recogniser.
fn all_single_edits(loc: &mut Local, base: &str, extra: &[char]) {
    let chars: Vec<char> = base.chars().collect();
    let n = chars.len();
    let mut buf = String::with_capacity(base.len() + 8);
    let run = |loc: &mut Local, buf: &str, k: K, kind: &'static str| {
        bk(loc, k);
        let acc = check_reader(loc, buf, Origin { kind, base: Some(base), nontrivial: true });
        bk(loc, if acc { K::r_mut_still_accepted } else { K::r_mut_rejected });
    };
    for i in 0..n {
        // delete
        buf.clear();
        buf.extend(chars[..i].iter());
        buf.extend(chars[i + 1..].iter());
        run(loc, &buf, K::r_mut_delete, "delete-one-char");
        // replace
        for &a in ALPHABET.iter().chain(extra.iter()) {
            if a == chars[i] {
                continue;
            }
            buf.clear();
            buf.extend(chars[..i].iter());
            buf.push(a);
            buf.extend(chars[i + 1..].iter());
            run(loc, &buf, K::r_mut_replace, "replace-one-char");
        }
        // swap with the next
        if i + 1 < n && chars[i] != chars[i + 1] {
            buf.clear();
            buf.extend(chars[..i].iter());
            buf.push(chars[i + 1]);
            buf.push(chars[i]);
            buf.extend(chars[i + 2..].iter());
            run(loc, &buf, K::r_mut_swap, "swap-neighbours");
        }
    }
    for i in 0..=n {
        for &a in ALPHABET.iter().chain(extra.iter()) {
            buf.clear();
            buf.extend(chars[..i].iter());
            buf.push(a);
            buf.extend(chars[i..].iter());
            run(loc, &buf, K::r_mut_insert, "insert-one-char");
        }
    }
}

fn random_scalar(rng: &mut Rng) -> char {
    loop {
        let c = match rng.below(4) {
            0 => rng.below(0x80) as u32,
            1 => 0x80 + rng.below(0x780) as u32,
            2 => 0x800 + rng.below(0xf800) as u32,
            _ => 0x10000 + rng.below(0x100000) as u32,
        };
        if let Some(c) = char::from_u32(c) {
            return c;
        }
    }
}

fn reader_generated(ctx: &Ctx, rep: &Report) {
    let total = ctx.n(2_400, 72_000);
    let n_shards = 240usize;
    let per = (total + n_shards as u64 - 1) / n_shards as u64;
    par_shards(rep, ctx.threads, n_shards, |shard| {
        let mut rng = Rng::new(ctx.seed, "C10/reader-generated", shard as u64);
        let mut loc = rep.local();
        let lead_chars = gen::lead_byte_chars();
        for _ in 0..per {
            let f = gen_valid(&mut rng);
            let s = f.render();
            match recognise(s.as_bytes()) {
                Ok(d) if f.den_matches(&d) => {}
                other => {
                    rep.harness_error(format!("generated-valid string {:?} not recognised as constructed: {:?}", s, other));
                    continue;
                }
            }
            bk(&mut loc, K::r_generated_valid);
            check_reader(&mut loc, &s, Origin { kind: "generated-valid", base: None, nontrivial: true });
            // besides the fixed alphabet: two random scalar values, eight random ASCII characters and four
            // characters drawn from one-per-UTF-8-lead-byte
            let mut extra = [' '; 14];
            extra[0] = random_scalar(&mut rng);
            extra[1] = random_scalar(&mut rng);
            for e in extra[10..].iter_mut() {
                *e = *rng.pick(&lead_chars);
            }
            for e in extra[2..10].iter_mut() {
                *e = rng.below(128) as u8 as char;
            }
            all_single_edits(&mut loc, &s, &extra);
        }
    });
}

/// Field-wise near misses: every component is rendered from a menu that contains the valid form
/// and the deviant forms named in the design (missing colon, one-digit fields, 24:00 offset, :60
/// minutes, fraction without digits, leading/trailing text, look-alike Unicode, wide/signed years,
/// day 00/32, Feb 29/30 ...). The verdict always comes from the recogniser.
fn gen_near_miss(rng: &mut Rng) -> String {
    let dev = |rng: &mut Rng| rng.chance(1, 10);
    let mut s = String::new();
    if dev(rng) {
        s.push_str(*rng.pick(&[" ", "\n", "x", "\u{feff}", "\0", "+", "-", "\t", "0"]));
    }
    let y = if rng.chance(1, 3) { *rng.pick(&YEARS) } else { rng.range(0, 9999) };
    if dev(rng) {
        match rng.below(8) {
            0 => s.push_str(&format!("{:03}", y % 1000)),
            1 => s.push_str(&format!("{:05}", y)),
            2 => s.push_str(&format!("+{:04}", y)),
            3 => s.push_str(&format!("-{:04}", y)),
            4 => s.push_str(&format!("{:4}", y % 1000)),
            5 => s.push_str(&format!("{:02}", y % 100)),
            6 => s.push_str(&format!("1{:04}", y)),
            _ => s.push_str(&format!("\u{2212}{:04}", y)),
        }
    } else {
        s.push_str(&format!("{:04}", y));
    }
    let datesep = |rng: &mut Rng, s: &mut String| {
        if rng.chance(1, 14) {
            s.push_str(*rng.pick(&["", "/", "\u{2212}", ":", "--", ".", " ", "\u{2010}"]));
        } else {
            s.push('-');
        }
    };
    datesep(rng, &mut s);
    let mo = rng.range(1, 12);
    let mo_valid = !dev(rng);
    if mo_valid {
        s.push_str(&format!("{:02}", mo));
    } else {
        s.push_str(*rng.pick(&["00", "13", "1", "001", "99", " 1", "1 ", "20", "19", "0"]));
    }
    datesep(rng, &mut s);
    let dim = rc::days_in_month(y, mo);
    match rng.below(12) {
        0 => s.push_str(*rng.pick(&["00", "32", "1", "001", " 1", "99", "40", "3"])),
        1 => s.push_str(&format!("{:02}", dim + 1)),
        2 => s.push_str(*rng.pick(&["28", "29", "30", "31"])),
        3 => s.push_str(&format!("{:02}", dim)),
        _ => s.push_str(&format!("{:02}", rng.range(1, dim))),
    }
    if dev(rng) {
        s.push_str(*rng.pick(&["", "  ", "_", "\t", "TT", "\n", "T ", " T", "\u{a0}", "\u{ff34}", "-", ":"]));
    } else {
        s.push(*rng.pick(&['T', 'T', 't', ' ']));
    }
    if dev(rng) {
        s.push_str(*rng.pick(&["24", "25", "99", "1", "001", " 1", "30", "2"]));
    } else {
        s.push_str(&format!("{:02}", rng.range(0, 23)));
    }
    let colon = |rng: &mut Rng, s: &mut String| {
        if rng.chance(1, 14) {
            s.push_str(*rng.pick(&["", ".", "::", " :", ": ", "-", "\u{ff1a}", " ", ";"]));
        } else {
            s.push(':');
        }
    };
    colon(rng, &mut s);
    if dev(rng) {
        s.push_str(*rng.pick(&["60", "99", "6", "61", "000", " 5", "70"]));
    } else {
        s.push_str(&format!("{:02}", rng.range(0, 59)));
    }
    colon(rng, &mut s);
    match rng.below(12) {
        0 => s.push_str(*rng.pick(&["61", "99", "6", "", "000", " 5", "70", "62"])),
        1 => s.push_str("60"),
        2 => s.push_str("59"),
        _ => s.push_str(&format!("{:02}", rng.range(0, 59))),
    }
    match rng.below(12) {
        0 => s.push_str(*rng.pick(&[".", ",5", ".5.5", ". 5", ".-5", ".\u{0665}", ".5 ", ".+5", ",", ".5e3", ":5", ".\u{ff15}"])),
        1..=4 => {}
        _ => {
            s.push('.');
            let n = if rng.chance(1, 6) { rng.range(10, 25) } else { rng.range(1, 9) } as usize;
            s.push_str(&random_digits(rng, n));
        }
    }
    if dev(rng) {
        let oh = rng.range(0, 23);
        let om = rng.range(0, 59);
        match rng.below(24) {
            0 => {}
            1 => s.push_str(&format!("+{:02}", oh)),
            2 => s.push_str(&format!("+{:02}{:02}", oh, om)),
            3 => s.push_str(&format!("-{:02}:{}", oh, om % 10)),
            4 => s.push_str(&format!("+{}:{:02}", oh % 10, om)),
            5 => s.push_str(&format!("+{:02}:{:02}:00", oh, om)),
            6 => s.push_str(*rng.pick(&["+24:00", "-24:00", "\u{2212}24:00", "+24:01", "+25:00", "-99:59"])),
            7 => s.push_str(*rng.pick(&["+23:60", "-00:60", "+00:99", "-23:99", "+12:60"])),
            8 => s.push_str(*rng.pick(&["UTC", "GMT", "utc", "UT", "EST", "Zulu"])),
            9 => s.push_str(" Z"),
            10 => s.push_str(&format!(" +{:02}:{:02}", oh, om)),
            11 => s.push_str(&format!("+ {:02}:{:02}", oh, om)),
            12 => s.push_str(&format!("\u{00b1}{:02}:{:02}", oh, om)),
            13 => s.push_str(&format!("+{:02}.{:02}", oh, om)),
            14 => s.push_str(&format!("+{:02}:{:02}Z", oh, om)),
            15 => s.push_str("ZZ"),
            16 => s.push_str("z+00:00"),
            17 => s.push_str(&format!("+{:02} :{:02}", oh, om)),
            18 => s.push_str(&format!("+{:02}: {:02}", oh, om)),
            19 => s.push_str(&format!("\u{2013}{:02}:{:02}", oh, om)),
            20 => s.push_str(&format!("\u{ff0b}{:02}:{:02}", oh, om)),
            21 => s.push_str(&format!("+{:02}::{:02}", oh, om)),
            22 => s.push_str(&format!("{:02}:{:02}", oh, om)),
            _ => s.push_str(&format!("+{:03}:{:02}", oh, om)),
        }
    } else {
        match rng.below(8) {
            0..=1 => s.push('Z'),
            2 => s.push('z'),
            _ => {
                s.push(*rng.pick(&['+', '-', '\u{2212}']));
                let (oh, om) = if rng.chance(1, 4) { *rng.pick(&[(0i64, 0i64), (23, 59), (23, 0), (0, 59)]) } else { (rng.range(0, 23), rng.range(0, 59)) };
                s.push_str(&format!("{:02}:{:02}", oh, om));
            }
        }
    }
    if dev(rng) {
        s.push_str(*rng.pick(&[" ", "\n", "x", "Z", "\0", "\t", "0", ".", " UTC", "\u{200b}", "[UTC]"]));
    }
    s
}

fn reader_near_misses(ctx: &Ctx, rep: &Report) {
    let total = ctx.n(1_000_000, 30_000_000);
    let n_shards = 128usize;
    let per = total / n_shards as u64 + 1;
    par_shards(rep, ctx.threads, n_shards, |shard| {
        let mut rng = Rng::new(ctx.seed, "C10/reader-near-miss", shard as u64);
        let mut loc = rep.local();
        for _ in 0..per {
            let s = gen_near_miss(&mut rng);
            bk(&mut loc, K::r_near_miss);
            check_reader(&mut loc, &s, Origin { kind: "field-wise-near-miss", base: None, nontrivial: true });
        }
    });
}

/// Systematic sub-spaces: dates (every year 0..=9999 × months 00..13 × days), all 10^6 two-digit
/// time triples, all sign × hh × mm offsets with several hour/minute separators, fraction lengths.
fn reader_spaces(ctx: &Ctx, rep: &Report) {
    let full = ctx.tier == Tier::Thorough;
    // dates
    let days: Vec<i64> = if full { (0..=32).collect() } else { vec![0, 1, 28, 29, 30, 31, 32] };
    par_shards(rep, ctx.threads, 100, |shard| {
        let mut loc = rep.local();
        let mut rng = Rng::new(ctx.seed, "C10/reader-date-space", shard as u64);
        for y in (shard as i64 * 100)..(shard as i64 * 100 + 100) {
            for mo in 0..=13i64 {
                for &d in &days {
                    let tail = match rng.below(4) {
                        0 => "T00:00:00Z",
                        1 => "t23:59:60-00:00",
                        2 => " 12:30:45.5+23:59",
                        _ => "T23:59:59.999999999\u{2212}23:59",
                    };
                    let s = format!("{:04}-{:02}-{:02}{}", y, mo, d, tail);
                    bk(&mut loc, K::r_date_space);
                    check_reader(&mut loc, &s, Origin { kind: "date-space", base: None, nontrivial: true });
                }
            }
        }
    });
    // times
    par_shards(rep, ctx.threads, 100, |shard| {
        let mut loc = rep.local();
        let h = shard as i64;
        for mi in 0..100i64 {
            for s in 0..100i64 {
                let (head, tail) = match (h + mi + s) % 3 {
                    0 => ("2024-02-29T", "Z"),
                    1 => ("0000-01-01 ", ".25+00:00"),
                    _ => ("9999-12-31t", "-23:59"),
                };
                let st = format!("{}{:02}:{:02}:{:02}{}", head, h, mi, s, tail);
                bk(&mut loc, K::r_time_space);
                check_reader(&mut loc, &st, Origin { kind: "time-space", base: None, nontrivial: true });
            }
        }
    });
    // offsets
    let seps = [":", "", " ", ": ", " :", "::", ".", "\u{ff1a}"];
    par_shards(rep, ctx.threads, 100, |shard| {
        let mut loc = rep.local();
        let oh = shard as i64;
        for om in 0..100i64 {
            for sign in ["+", "-", "\u{2212}", "", " ", "\u{2013}", "\u{ff0b}"] {
                for sep in seps {
                    for head in ["2000-01-01T00:00:00", "1999-12-31T23:59:60.123"] {
                        let s = format!("{}{}{:02}{}{:02}", head, sign, oh, sep, om);
                        bk(&mut loc, K::r_offset_space);
                        check_reader(&mut loc, &s, Origin { kind: "offset-space", base: None, nontrivial: true });
                    }
                }
            }
            // hours only / one-digit forms
            for s in [format!("2000-01-01T00:00:00+{:02}", oh), format!("2000-01-01T00:00:00-{}:{:02}", oh % 10, om), format!("2000-01-01T00:00:00+{:02}:{}", oh, om % 10)] {
                bk(&mut loc, K::r_offset_space);
                check_reader(&mut loc, &s, Origin { kind: "offset-space", base: None, nontrivial: true });
            }
        }
    });
    // fractions
    let lens: Vec<usize> = (0..=40).chain([63, 64, 65, 100, 255, 256, 1000, 4096]).chain(if full { vec![65_536, 1_000_000] } else { vec![20_000] }).collect();
    par_shards(rep, ctx.threads, lens.len(), |shard| {
        let mut loc = rep.local();
        let mut rng = Rng::new(ctx.seed, "C10/reader-fraction-space", shard as u64);
        let n = lens[shard];
        let reps = if n <= 40 { 400 } else { 4 };
        for r in 0..reps {
            let digs = random_digits(&mut rng, n);
            for (head, tail) in [("2000-01-01T00:00:59", "Z"), ("2016-12-31T23:59:60", "+00:00"), ("1970-01-01 00:00:00", "-08:00")] {
                let s = format!("{}.{}{}", head, digs, tail);
                bk(&mut loc, K::r_fraction_space);
                check_reader(&mut loc, &s, Origin { kind: "fraction-space", base: None, nontrivial: n <= 40 || r == 0 });
                if n >= 1 && r % 8 == 0 {
                    // a non-digit somewhere inside the fraction
                    let pos = rng.below(n as u64) as usize;
                    let bad = *rng.pick(&['\u{0660}', 'e', ' ', '.', '-', '\u{ff10}', '_', ',']);
                    let mut d2: Vec<char> = digs.chars().collect();
                    d2[pos] = bad;
                    let s2 = format!("{}.{}{}", head, d2.into_iter().collect::<String>(), tail);
                    bk(&mut loc, K::r_fraction_space);
                    check_reader(&mut loc, &s2, Origin { kind: "fraction-space", base: None, nontrivial: n <= 40 });
                }
            }
        }
    });
}

fn reader_arbitrary(ctx: &Ctx, rep: &Report) {
    let total = ctx.n(600_000, 20_000_000);
    let n_shards = 64usize;
    let per = total / n_shards as u64 + 1;
    par_shards(rep, ctx.threads, n_shards, |shard| {
        let mut rng = Rng::new(ctx.seed, "C10/reader-arbitrary", shard as u64);
        let mut loc = rep.local();
        if shard == 0 {
            bk(&mut loc, K::r_empty);
            bk(&mut loc, K::r_arbitrary);
            check_reader(&mut loc, "", Origin { kind: "empty", base: None, nontrivial: true });
        }
        for _ in 0..per {
            let s = match rng.below(4) {
                0 => gen::random_unicode(&mut rng, 40),
                1 => {
                    // a valid prefix followed by arbitrary text
                    let v = gen_valid(&mut rng).render();
                    let cut = rng.below(v.chars().count() as u64 + 1) as usize;
                    let mut p: String = v.chars().take(cut).collect();
                    p.push_str(&gen::random_unicode(&mut rng, 6));
                    p
                }
                2 => {
                    // arbitrary text, then a valid string (leading garbage)
                    let mut p = gen::random_unicode(&mut rng, 4);
                    p.push_str(&gen_valid(&mut rng).render());
                    p
                }
                _ => {
                    // a valid string with 2..4 random scalar values spliced in / over
                    let mut cs: Vec<char> = gen_valid(&mut rng).render().chars().collect();
                    for _ in 0..rng.range(2, 4) {
                        let pos = rng.below(cs.len() as u64) as usize;
                        let c = random_scalar(&mut rng);
                        if rng.chance(1, 2) {
                            cs[pos] = c;
                        } else {
                            cs.insert(pos, c);
                        }
                    }
                    cs.into_iter().collect()
                }
            };
            bk(&mut loc, K::r_arbitrary);
            check_reader(&mut loc, &s, Origin { kind: "arbitrary-unicode", base: None, nontrivial: false });
        }
    });
}

// ------------------------------------------------------------------------------------------------
// Writer monitor
// ------------------------------------------------------------------------------------------------

#[derive(Clone, Copy, Debug, PartialEq, Eq)]
enum Sf {
    Secs,
    Millis,
    Micros,
    Nanos,
    Auto,
}

const SFS: [(Sf, SecondsFormat, &str); 5] = [
    (Sf::Secs, SecondsFormat::Secs, "Secs"),
    (Sf::Millis, SecondsFormat::Millis, "Millis"),
    (Sf::Micros, SecondsFormat::Micros, "Micros"),
    (Sf::Nanos, SecondsFormat::Nanos, "Nanos"),
    (Sf::Auto, SecondsFormat::AutoSi, "AutoSi"),
];

/// number of fraction digits the option must print for sub-second value `f` (0..1e9)
fn want_digits(sf: Sf, f: i64) -> usize {
    match sf {
        Sf::Secs => 0,
        Sf::Millis => 3,
        Sf::Micros => 6,
        Sf::Nanos => 9,
        Sf::Auto => {
            if f == 0 {
                0
            } else if f % 1_000_000 == 0 {
                3
            } else if f % 1_000 == 0 {
                6
            } else {
                9
            }
        }
    }
}

fn pow10(n: usize) -> i64 {
    let mut p = 1;
    for _ in 0..n {
        p *= 10;
    }
    p
}

/// Reference rendering from R-cal fields: documented form `YYYY-MM-DDTHH:MM:SS[.fff…](Z|±HH:MM)`.
fn ref_render(local: RDt, off: i64, sf: Sf, use_z: bool) -> String {
    let (y, m, d) = rc::civil_from_days(local.day);
    let (h, mi, mut s) = local.hms();
    let mut f = local.frac;
    if f >= 1_000_000_000 {
        f -= 1_000_000_000;
        s += 1;
    }
    let mut out = format!("{:04}-{:02}-{:02}T{:02}:{:02}:{:02}", y, m, d, h, mi, s);
    let nd = want_digits(sf, f);
    if nd > 0 {
        let v = f / pow10(9 - nd); // truncation
        out.push_str(&format!(".{:0width$}", v, width = nd));
    }
    if use_z && off == 0 {
        out.push('Z');
    } else {
        let (sg, a) = if off < 0 { ('-', -off) } else { ('+', off) };
        out.push_str(&format!("{}{:02}:{:02}", sg, a / 3600, a / 60 % 60));
    }
    out
}

fn classify_output(out: &str, local: RDt, off: i64, sf: Sf, use_z: bool) -> String {
    let d = match recognise(out.as_bytes()) {
        Err(r) => return format!("not-rfc3339/{}", r.name()),
        Ok(d) => d,
    };
    let (y, m, dd) = rc::civil_from_days(local.day);
    let (h, mi, mut s) = local.hms();
    let mut f = local.frac;
    if f >= 1_000_000_000 {
        f -= 1_000_000_000;
        s += 1;
    }
    let nd = want_digits(sf, f);
    if (d.y, d.mo, d.d) != (y, m, dd) {
        "wrong-date-fields".into()
    } else if (d.h, d.mi) != (h, mi) {
        "wrong-hour-minute".into()
    } else if d.s != s {
        "wrong-second".into()
    } else if d.frac_digits != nd {
        "wrong-fraction-width".into()
    } else if d.frac != f / pow10(9 - nd) * pow10(9 - nd) {
        "fraction-not-truncated".into()
    } else if (d.zulu != 0) != (use_z && off == 0) {
        "z-handling".into()
    } else if d.off != off {
        "wrong-offset".into()
    } else {
        "representation".into()
    }
}

fn build(local: RDt, off: i64) -> Option<(NaiveDateTime, DateTime<FixedOffset>)> {
    let n = local.to_chrono()?;
    let fo = FixedOffset::east_opt(off as i32)?;
    let dt = fo.from_local_datetime(&n).single()?;
    Some((n, dt))
}

/// All renderings of one date-time (wall reading `local`, whole-minute `off`).
fn check_writer(loc: &mut Local, local: RDt, off: i64, extras: bool) {
    let (y, m, d) = rc::civil_from_days(local.day);
    debug_assert!((0..=9999).contains(&y) && off % 60 == 0 && off.abs() <= 86340);
    let built = crate::mon::guard(|| build(local, off));
    let (ndt, dt) = match built {
        Ok(Some(x)) => x,
        other => {
            loc.rep.harness_error(format!("cannot build input date-time local={:?} off={}: {:?}", local, off, other.map(|o| o.is_some()).map_err(|p| p.msg)));
            return;
        }
    };
    let leap = local.is_leap();
    let f = local.frac % 1_000_000_000;
    let input = || json!({"local": format!("{:?}", ndt), "offset_secs": off});
    let case_hash = h2(h2(local.day as u64, (local.secs as u64) << 32 | local.frac as u64), off as u64);
    // value buckets
    if leap {
        bk(loc, K::w_leap_60);
    }
    if y == 0 {
        bk(loc, K::w_year_0);
    }
    if y == 9999 {
        bk(loc, K::w_year_9999);
    }
    if y < 1000 {
        bk(loc, K::w_year_below_1000);
    }
    if m == 2 && d == 29 {
        bk(loc, K::w_feb29);
    }
    if off < 0 {
        bk(loc, K::w_offset_negative);
        if off > -3600 {
            bk(loc, K::w_offset_negative_below_1h);
        }
    }
    if off > 0 {
        bk(loc, K::w_offset_positive);
    }
    if off.abs() == 86340 {
        bk(loc, K::w_offset_extreme);
    }
    if utc_of(local, off).day != local.day {
        bk(loc, K::w_utc_date_differs_from_wall);
    }
    if f == 999_999_999 {
        bk(loc, K::w_fraction_all_nines);
    }
    let utc_dt = if off == 0 { Some(Utc.from_utc_datetime(&ndt)) } else { None };

    for (sf, csf, sfname) in SFS {
        let nd = want_digits(sf, f);
        let kept = f / pow10(9 - nd) * pow10(9 - nd);
        let dropped = f - kept;
        for use_z in [false, true] {
            loc.eval();
            let exp = ref_render(local, off, sf, use_z);
            bk(loc, match sf {
                Sf::Secs => K::w_secs,
                Sf::Millis => K::w_millis,
                Sf::Micros => K::w_micros,
                Sf::Nanos => K::w_nanos,
                Sf::Auto => match nd {
                    0 => K::w_auto_0,
                    3 => K::w_auto_3,
                    6 => K::w_auto_6,
                    _ => K::w_auto_9,
                },
            });
            if nd < 9 && dropped * 2 >= pow10(9 - nd) {
                bk(loc, K::w_truncation_differs_from_rounding);
            }
            if use_z {
                bk(loc, if off == 0 { K::w_z_printed } else { K::w_use_z_nonzero_offset });
            } else if off == 0 {
                bk(loc, K::w_no_z_zero_offset);
            }
            loc.nontrivial(h2(case_hash, (sf as u64) * 2 + use_z as u64));
            let out = match loc.call("to_rfc3339_opts", || json!({"value": input(), "secform": sfname, "use_z": use_z}), || dt.to_rfc3339_opts(csf, use_z)) {
                Some(o) => o,
                None => continue,
            };
            if out != exp {
                let class = classify_output(&out, local, off, sf, use_z);
                loc.violation(
                    &format!("C10/to_rfc3339_opts/{}/{}", class, sfname),
                    json!({"value": input(), "secform": sfname, "use_z": use_z, "expected": exp, "observed": out}),
                );
            }
            // the same through DateTime<Utc>
            if let Some(u) = &utc_dt {
                loc.eval();
                bk(loc, K::w_utc_type);
                if let Some(o2) = loc.call("DateTime<Utc>::to_rfc3339_opts", || json!({"value": input(), "secform": sfname, "use_z": use_z}), || u.to_rfc3339_opts(csf, use_z)) {
                    if o2 != exp {
                        let class = classify_output(&o2, local, 0, sf, use_z);
                        loc.violation(
                            &format!("C10/DateTime<Utc>::to_rfc3339_opts/{}/{}", class, sfname),
                            json!({"value": input(), "secform": sfname, "use_z": use_z, "expected": exp, "observed": o2}),
                        );
                    }
                }
            }
            // parse back: same offset, instant truncated to the printed precision
            loc.eval();
            bk(loc, K::w_roundtrip);
            let back = loc.call("parse_from_rfc3339", || json!({"input": out, "origin": "writer-output"}), || DateTime::parse_from_rfc3339(&out));
            let exp_local = RDt::new(local.day, local.secs, kept + if leap { 1_000_000_000 } else { 0 });
            let exp_utc = utc_of(exp_local, off);
            match back {
                None => {}
                Some(Err(e)) => loc.violation(
                    &format!("C10/roundtrip/own-output-rejected/{}/{:?}", sfname, e.kind()),
                    json!({"value": input(), "secform": sfname, "use_z": use_z, "rendered": out, "observed": format!("Err({:?})", e.kind())}),
                ),
                Some(Ok(b)) => {
                    let obs = loc.call("roundtrip/accessors", || json!({"input": out}), || {
                        (b.offset().local_minus_utc() as i64, RDt::of(&b.naive_local()), RDt::of(&b.naive_utc()), kept == f && b != dt)
                    });
                    if let Some((o_off, o_local, o_utc, ne_lossless)) = obs {
                        if o_off != off {
                            loc.violation(
                                &format!("C10/roundtrip/wrong-offset/{}", sfname),
                                json!({"value": input(), "secform": sfname, "use_z": use_z, "rendered": out, "expected_offset": off, "observed_offset": o_off}),
                            );
                        } else if o_local != exp_local || o_utc != exp_utc || ne_lossless {
                            loc.violation(
                                &format!("C10/roundtrip/wrong-instant/{}", sfname),
                                json!({"value": input(), "secform": sfname, "use_z": use_z, "rendered": out,
                                       "expected": {"local": [exp_local.day, exp_local.secs, exp_local.frac], "utc": [exp_utc.day, exp_utc.secs, exp_utc.frac]},
                                       "observed": {"local": [o_local.day, o_local.secs, o_local.frac], "utc": [o_utc.day, o_utc.secs, o_utc.frac], "debug": format!("{:?}", b)}}),
                            );
                        }
                    }
                }
            }
            if case_hash % 97 == 0 && (sf as u64 * 2 + use_z as u64) == case_hash % 10 && W_SAMPLES.fetch_add(1, Ordering::Relaxed) < 6 {
                loc.sample(|| json!({"value": input(), "secform": sfname, "use_z": use_z, "rendered": out, "reference": exp}));
            }
        }
    }
    if extras {
        let exp = ref_render(local, off, Sf::Auto, false);
        loc.eval();
        bk(loc, K::w_to_rfc3339);
        if let Some(o) = loc.call("to_rfc3339", input, || dt.to_rfc3339()) {
            if o != exp {
                let class = classify_output(&o, local, off, Sf::Auto, false);
                loc.violation(&format!("C10/to_rfc3339/{}", class), json!({"value": input(), "expected": exp, "observed": o}));
            }
        }
        loc.evals(2);
        bk(loc, K::w_item_and_strftime);
        if let Some(o) = loc.call("format(%+)", input, || dt.format("%+").to_string()) {
            if o != exp {
                let class = classify_output(&o, local, off, Sf::Auto, false);
                loc.violation(&format!("C10/format(%+)/{}", class), json!({"value": input(), "expected": exp, "observed": o}));
            }
        }
        const ITEMS: &[Item<'static>] = &[Item::Fixed(Fixed::RFC3339)];
        if let Some(o) = loc.call("format_with_items(Fixed::RFC3339)", input, || dt.format_with_items(ITEMS.iter()).to_string()) {
            if o != exp {
                let class = classify_output(&o, local, off, Sf::Auto, false);
                loc.violation(&format!("C10/format_with_items(Fixed::RFC3339)/{}", class), json!({"value": input(), "expected": exp, "observed": o}));
            }
        }
        if let Some(u) = &utc_dt {
            loc.eval();
            if let Some(o) = loc.call("DateTime<Utc>::to_rfc3339", input, || u.to_rfc3339()) {
                if o != exp {
                    let class = classify_output(&o, local, 0, Sf::Auto, false);
                    loc.violation(&format!("C10/DateTime<Utc>::to_rfc3339/{}", class), json!({"value": input(), "expected": exp, "observed": o}));
                }
            }
        }
        // the writer's output is also a reader case (exact acceptance incl. value)
        bk(loc, K::r_writer_output);
        check_reader(loc, &exp, Origin { kind: "reference-rendering", base: None, nontrivial: false });
    }
}

fn day0() -> i64 {
    rc::day_number(0, 1, 1)
}
fn day9999() -> i64 {
    rc::day_number(9999, 12, 31)
}

/// Fractions around every digit boundary and around the rounding points of every precision.
fn fraction_catalogue() -> Vec<i64> {
    let mut v: Vec<i64> = gen::catalogue_fracs();
    for k in 0..9usize {
        let p = pow10(k);
        for dgt in [1i64, 4, 5, 9] {
            v.push(dgt * p);
            v.push(dgt * p + 1);
            v.push(dgt * p - 1);
        }
    }
    for x in [499_999i64, 500_000, 500_001, 499, 500, 501, 499_999_999, 500_000_001, 999_499_999, 999_500_000, 999_999_499, 999_999_500, 123_000_000, 123_456_000,
              100_000_000, 120_000_000, 1_500_000, 1_000_500, 999_999_500, 999_500_500, 5_000_000, 4_999_999, 994_999_999, 995_000_000] {
        v.push(x);
    }
    v.retain(|x| (0..1_000_000_000).contains(x));
    v.sort();
    v.dedup();
    v
}

fn writer_systematic(ctx: &Ctx, rep: &Report) {
    let full = ctx.tier == Tier::Thorough;
    // (a) all 2879 whole-minute offsets × a few wall readings
    let walls: Vec<RDt> = vec![
        RDt::new(day0(), 0, 0),
        RDt::new(day0(), 1439 * 60 + 59, 999_999_999),
        RDt::new(day9999(), 86_399, 1_999_999_999),
        RDt::new(day9999(), 0, 1),
        RDt::new(rc::day_number(2024, 2, 29), 12 * 3600 + 34 * 60 + 56, 789_000_000),
        RDt::new(rc::day_number(1970, 1, 1), 0, 0),
        RDt::new(rc::day_number(999, 12, 31), 86_399, 1_000_000_000),
        RDt::new(rc::day_number(2000, 3, 1), 59, 123_456_000),
    ];
    par_shards(rep, ctx.threads, 2879, |shard| {
        let mut loc = rep.local();
        let off = (shard as i64 - 1439) * 60;
        for (i, w) in walls.iter().enumerate() {
            check_writer(&mut loc, *w, off, i < 3 || full);
        }
    });
    // (b) fraction catalogue × seconds × leap × a few offsets
    let fr = fraction_catalogue();
    let secs = gen::catalogue_secs();
    let offs = [0i64, 60, -60, 19_800, -34_200, 86_340, -86_340, 3600, -1800];
    let days = [rc::day_number(2016, 12, 31), day0(), day9999(), rc::day_number(100, 2, 28)];
    par_shards(rep, ctx.threads, fr.len(), |shard| {
        let mut loc = rep.local();
        let f = fr[shard];
        for (si, &s) in secs.iter().enumerate() {
            for (oi, &off) in offs.iter().enumerate() {
                if !full && (si + oi + shard) % 3 != 0 {
                    continue;
                }
                let day = days[(si + oi) % days.len()];
                check_writer(&mut loc, RDt::new(day, s, f), off, oi == 0);
                if s % 60 == 59 {
                    check_writer(&mut loc, RDt::new(day, s, f + 1_000_000_000), off, oi == 0);
                }
            }
        }
    });
    // (c) date sweep over wall years 0..=9999
    par_shards(rep, ctx.threads, 200, |shard| {
        let mut loc = rep.local();
        let mut rng = Rng::new(ctx.seed, "C10/writer-dates", shard as u64);
        for y in (shard as i64 * 50)..(shard as i64 * 50 + 50) {
            let all_days = full || YEARS.contains(&y) || y % 400 == 0;
            let first = rc::day_number(y, 1, 1);
            let last = rc::day_number(y, 12, 31);
            let mut n = first;
            while n <= last {
                let (_, m, d) = rc::civil_from_days(n);
                let edge = d == 1 || d == rc::days_in_month(y, m) || (m == 2 && d >= 28);
                if all_days || edge {
                    let secs = gen::random_secs(&mut rng);
                    let mut frac = gen::random_frac(&mut rng);
                    if secs % 60 == 59 && rng.chance(1, 4) {
                        frac += 1_000_000_000;
                    }
                    let off = if rng.chance(1, 3) { *rng.pick(&[0i64, 0, 86_340, -86_340, 60, -60]) } else { rng.range(-1439, 1439) * 60 };
                    check_writer(&mut loc, RDt::new(n, secs, frac), off, n % 7 == 0);
                }
                n += 1;
            }
        }
    });
}

fn writer_random(ctx: &Ctx, rep: &Report) {
    let total = ctx.n(120_000, 4_000_000);
    let n_shards = 128usize;
    let per = total / n_shards as u64 + 1;
    let cat: Vec<i64> = gen::catalogue_days().into_iter().filter(|n| (day0()..=day9999()).contains(n)).collect();
    par_shards(rep, ctx.threads, n_shards, |shard| {
        let mut rng = Rng::new(ctx.seed, "C10/writer-random", shard as u64);
        let mut loc = rep.local();
        for _ in 0..per {
            let day = match rng.below(4) {
                0 => *rng.pick(&cat),
                1 => (*rng.pick(&cat) + rng.range(-2, 2)).clamp(day0(), day9999()),
                _ => rng.range(day0(), day9999()),
            };
            let mut secs = gen::random_secs(&mut rng);
            let mut frac = gen::random_frac(&mut rng);
            if rng.chance(1, 6) {
                secs = secs - secs % 60 + 59;
                frac += 1_000_000_000;
            }
            let off = match rng.below(6) {
                0 => 0,
                1 => *rng.pick(&[60i64, -60, 86_340, -86_340, 3540, -3540, 3600, -3600, 19_800, -12_600]),
                _ => rng.range(-1439, 1439) * 60,
            };
            check_writer(&mut loc, RDt::new(day, secs, frac), off, true);
        }
    });
}

// ------------------------------------------------------------------------------------------------

pub fn run(ctx: &Ctx) -> Outcome {
    let rep = Report::with_bitmap_bits("C10", B, FLOOR, 28);
    W_SAMPLES.store(0, Ordering::Relaxed);
    for r in [rc::self_test(), ri::self_test(), recogniser_self_test()] {
        if let Err(e) = r {
            rep.harness_error(e);
            return rep.finish(ctx, "self-test failed", &[]);
        }
    }
    writer_systematic(ctx, &rep);
    writer_random(ctx, &rep);
    reader_spaces(ctx, &rep);
    reader_generated(ctx, &rep);
    reader_near_misses(ctx, &rep);
    reader_arbitrary(ctx, &rep);
    rep.set_extra("single_edit_alphabet_size", json!(ALPHABET.len() + 14));
    let _: Value = json!(null);
    rep.finish(
        ctx,
        "writer: every whole-minute offset x 8 wall readings, a fraction catalogue (digit boundaries and rounding points of every precision) x catalogue seconds x leap, a date sweep over wall years 0..=9999 (all days in thorough; month ends, Feb 28/29 and catalogue years in quick) and random (day, second, fraction, leap on :59, offset) tuples, each rendered with all 5 SecondsFormat x use_z (+ to_rfc3339, %+, Fixed::RFC3339 item, DateTime<Utc>) and parsed back; reader: grammar-generated valid strings over the whole field space and latitude, each with EVERY single-character edit (delete, replace by / insert each of 44 fixed characters incl. look-alike Unicode, plus two random scalar values and eight random ASCII characters per base string, swap neighbours), field-wise near misses, the systematic spaces year 0..=9999 x month 00..13 x day, all 10^6 two-digit time triples, all sign x hh x mm offsets x 8 hour/minute separators, fraction lengths 0..40 and up to 10^6 digits, and arbitrary Unicode; every string is judged by the reference recogniser. A writer case is non-trivial always (distinct = distinct (value, offset, option)); a reader case is non-trivial unless it is arbitrary Unicode (distinct = distinct strings); hashed bitmap, collisions under-count",
        &[
            "R-cal/R-inst are correct (self-tested at start); the reference recogniser and renderer are correct (self-tested on literals from RFC 3339 and chrono's rustdoc)",
            "second 60 is accepted on any minute and denotes chrono's leap-second representation (second 59, nanosecond + 1e9); fraction digits beyond the ninth are ignored",
            "writer domain as quantified by the property: wall year 0..=9999, whole-minute offsets within +/-23:59, leap-second representations only on wall second :59; nothing is asserted outside it",
            "the error kind of a rejection is not asserted",
        ],
    )
}
