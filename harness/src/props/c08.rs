//! C08 — month stepping, field replacement and week helpers follow calendar rules.
//! Oracle: R-cal (i64/i128 arithmetic on (year, month, day) tuples and day numbers), none of
//! chrono's tables or packed encodings.

use crate::gen;
use crate::mon::{guard, h2, par_shards, Ctx, Local, Outcome, Report, Tier};
use crate::refcal as rc;
use crate::rng::Rng;
use chrono::{DateTime, Datelike, Month, Months, NaiveDate, NaiveDateTime, NaiveTime, TimeZone, Timelike, Utc, Weekday};
use serde_json::{json, Value};

macro_rules! buckets {
    ($($name:ident),* $(,)?) => {
        #[allow(non_camel_case_types, dead_code)]
        #[derive(Clone, Copy)]
        enum Bk { $($name),* }
        const B: &[&str] = &[$(stringify!($name)),*];
    };
}

buckets! {
    // month stepping
    months_zero, months_no_clamp, months_clamp_to_30, months_clamp_to_feb29, months_clamp_to_feb28,
    months_year_rollover_fwd, months_year_rollover_back, months_none_above, months_none_below,
    months_target_max_year, months_target_min_year, months_last_representable_month, months_first_representable_month,
    months_n_gt_i32max, months_n_i32max, months_n_u32max, months_operator_form, months_via_datetime,
    months_negative_year_floor,
    // date field replacement
    with_year_some, with_year_identity, with_year_none_feb29, with_year_feb29_to_leap, with_year_none_out_of_range,
    with_year_i32_extreme, with_year_range_end_some,
    with_month_some, with_month_none_day_missing, with_month_none_invalid, with_month0_some, with_month0_none_u32max,
    with_day_some, with_day_none_missing, with_day_none_invalid, with_day0_some, with_day0_none_u32max,
    with_ordinal_some, with_ordinal_some_366_leap, with_ordinal_none_366_common, with_ordinal_none_invalid,
    with_ordinal0_some, with_ordinal0_none_u32max, with_arg_ge_2pow31, with_date_via_datetime,
    // time field replacement
    time_hour_some, time_hour_none, time_minute_some, time_minute_none, time_second_some, time_second_none,
    time_nano_some, time_nano_leap_some, time_nano_none, time_leap_source, time_leap_on_non59_source,
    time_arg_mul_wrap, time_via_datetime,
    // week helper
    week_both_some, week_first_none_below, week_last_none_above, week_back_0, week_back_6, week_panicking_forms,
    week_every_start,
    // n-th weekday of month
    wom_some, wom_some_n5, wom_none_n5, wom_none_n0, wom_none_n_large, wom_none_bad_month, wom_none_year_out,
    wom_n_ge_38,
    // years elapsed
    ys_none_negative, ys_anniversary_exact, ys_anniversary_day_before, ys_anniversary_day_after, ys_feb29_base,
    ys_feb29_ambiguous, ys_same_day, ys_large, ys_datetime_time_decides, ys_datetime_none_same_day,
    // quarter, year_ce, month lengths
    ndim_feb_leap, ndim_feb_common, ndim_30, ndim_31, ndim_century_common, ndim_400_leap,
    month_num_days_in_range, month_num_days_out_of_range_year, quarter_checked, year_ce_bce, year_ce_ce, misc_wall_date_in_headroom,
    // thorough/quick product walk
    product_walk_date, deprecated_panicking_twins,
}

/// Buckets that are informative only (may legitimately be empty in some run).
const NOT_FLOOR: &[&str] = &[];

const MIN_T: i64 = rc::MIN_YEAR * 12; // first representable year-month as a month count
const MAX_T: i64 = rc::MAX_YEAR * 12 + 11; // last representable year-month

fn wd_of(i: i64) -> Weekday {
    match i {
        0 => Weekday::Mon,
        1 => Weekday::Tue,
        2 => Weekday::Wed,
        3 => Weekday::Thu,
        4 => Weekday::Fri,
        5 => Weekday::Sat,
        _ => Weekday::Sun,
    }
}

type Ymd = (i64, i64, i64);

// ------------------------------------------------------------------------------------------------
// Oracles (written from the calendar rules; wide integers)
// ------------------------------------------------------------------------------------------------

/// (y, m, d) shifted by `delta` months: year-month moves by exactly delta, day kept but clamped to
/// the target month's length; None iff the target year is outside [MIN_YEAR, MAX_YEAR].
/// Returns (result, target (year, month), clamped?).
fn months_oracle(y: i64, m: i64, d: i64, delta: i64) -> (Option<Ymd>, (i128, i64), bool) {
    let total: i128 = y as i128 * 12 + (m as i128 - 1) + delta as i128;
    let ty = total.div_euclid(12);
    let tm = total.rem_euclid(12) as i64 + 1;
    if ty < rc::MIN_YEAR as i128 || ty > rc::MAX_YEAR as i128 {
        return (None, (ty, tm), false);
    }
    let dim = rc::days_in_month(ty as i64, tm);
    let td = d.min(dim);
    (Some((ty as i64, tm, td)), (ty, tm), td != d)
}

fn in_range_year(y: i64) -> bool {
    (rc::MIN_YEAR..=rc::MAX_YEAR).contains(&y)
}

/// n-th (1-based) weekday `wd` (0 = Monday) of month (y, m): by scanning the month.
fn wom_oracle(y: i64, m: i64, wd: i64, n: i64) -> Option<i64> {
    if !in_range_year(y) || !(1..=12).contains(&m) || n < 1 {
        return None;
    }
    let dim = rc::days_in_month(y, m);
    let n1 = rc::day_number(y, m, 1);
    let mut cnt = 0;
    for d in 1..=dim {
        if rc::weekday(n1 + d - 1) == wd {
            cnt += 1;
            if cnt == n {
                return Some(d);
            }
        }
    }
    None
}

/// Whole years from base to s. Each side: (y, m, d, secs, frac). None iff s < base.
/// Second component: an alternative count that is equally defensible under the property text
/// (base on Feb 29, s on Feb 28 of a common year: "anniversary on Feb 28" reading).
fn years_since_oracle(s: (i64, i64, i64, i64, i64), b: (i64, i64, i64, i64, i64)) -> (Option<i64>, Option<i64>) {
    if s < b {
        return (None, None);
    }
    let s_md = (s.1, s.2, s.3, s.4);
    let b_md = (b.1, b.2, b.3, b.4);
    let k = s.0 - b.0 - if s_md < b_md { 1 } else { 0 };
    let ambiguous = b.1 == 2 && b.2 == 29 && s.1 == 2 && s.2 == 28 && !rc::is_leap(s.0) && (s.3, s.4) >= (b.3, b.4);
    (Some(k), if ambiguous { Some(k + 1) } else { None })
}

fn self_test() -> Result<(), String> {
    let chk = |c: bool, s: &str| if c { Ok(()) } else { Err(format!("C08 oracle self-test failed: {}", s)) };
    chk(months_oracle(2022, 2, 20, 6).0 == Some((2022, 8, 20)), "2022-02-20 + 6")?;
    chk(months_oracle(2022, 7, 31, 2).0 == Some((2022, 9, 30)), "2022-07-31 + 2")?;
    chk(months_oracle(2020, 1, 31, 1).0 == Some((2020, 2, 29)), "2020-01-31 + 1")?;
    chk(months_oracle(2019, 1, 31, 1).0 == Some((2019, 2, 28)), "2019-01-31 + 1")?;
    chk(months_oracle(2014, 1, 1, -13).0 == Some((2012, 12, 1)), "2014-01-01 - 13")?;
    chk(months_oracle(0, 1, 31, -1).0 == Some((-1, 12, 31)), "0000-01-31 - 1")?;
    chk(months_oracle(-1, 12, 31, 2).0 == Some((0, 2, 29)), "-0001-12-31 + 2 (year 0 is leap)")?;
    chk(months_oracle(rc::MAX_YEAR, 12, 1, 1).0.is_none() && months_oracle(rc::MAX_YEAR, 11, 30, 1).0 == Some((rc::MAX_YEAR, 12, 30)), "upper end")?;
    chk(months_oracle(rc::MIN_YEAR, 1, 1, -1).0.is_none() && months_oracle(rc::MIN_YEAR, 2, 1, -1).0 == Some((rc::MIN_YEAR, 1, 1)), "lower end")?;
    chk(months_oracle(2000, 1, 1, u32::MAX as i64).0.is_none() && months_oracle(2000, 1, 1, -(u32::MAX as i64)).0.is_none(), "u32::MAX")?;
    chk(wom_oracle(2017, 3, 4, 2) == Some(10), "2nd Friday of March 2017")?;
    chk(wom_oracle(2023, 4, 0, 5).is_none() && wom_oracle(2023, 4, 0, 4) == Some(24), "Mondays of April 2023")?;
    chk(wom_oracle(2024, 2, 3, 5) == Some(29), "5th Thursday of Feb 2024")?;
    chk(years_since_oracle((2024, 5, 17, 0, 0), (2000, 5, 18, 0, 0)).0 == Some(23), "years_since day before")?;
    chk(years_since_oracle((2024, 5, 18, 0, 0), (2000, 5, 18, 0, 0)).0 == Some(24), "years_since exact")?;
    chk(years_since_oracle((2000, 5, 17, 0, 0), (2000, 5, 18, 0, 0)).0.is_none(), "years_since negative")?;
    chk(years_since_oracle((2021, 2, 28, 0, 0), (2020, 2, 29, 0, 0)) == (Some(0), Some(1)), "years_since Feb 29 ambiguity")?;
    // week of 2022-05-18 (Wednesday) starting Thursday = 2022-05-12 ..= 2022-05-18
    let n = rc::day_number(2022, 5, 18);
    chk(rc::weekday(n) == 2 && n - (rc::weekday(n) - 3).rem_euclid(7) == rc::day_number(2022, 5, 12), "week start")?;
    Ok(())
}

// ------------------------------------------------------------------------------------------------
// Result comparison
// ------------------------------------------------------------------------------------------------

/// Does the chrono date denote exactly the reference tuple (all redundant readings agree)?
#[inline]
fn date_is(d: &NaiveDate, e: Ymd) -> bool {
    let o = rc::ordinal_of(e.0, e.1, e.2);
    let n = rc::days_before_year(e.0) + o;
    d.year() as i64 == e.0
        && d.month() as i64 == e.1
        && d.day() as i64 == e.2
        && d.ordinal() as i64 == o
        && d.num_days_from_ce() as i64 == n
        && d.weekday().num_days_from_monday() as i64 == rc::weekday(n)
        && d.leap_year() == rc::is_leap(e.0)
        && NaiveDate::from_ymd_opt(e.0 as i32, e.1 as u32, e.2 as u32) == Some(*d)
}

/// sample writer: the sample itself calls chrono, so it runs under the panic monitor too
fn sample_guard(f: impl FnOnce() -> Value) -> Value {
    guard(f).unwrap_or_else(|p| json!({"sample_unreadable": p.to_json()}))
}

fn show_date(d: &NaiveDate) -> Value {
    json!({"ymd": [d.year(), d.month(), d.day()], "ordinal": d.ordinal(), "num_days_from_ce": d.num_days_from_ce(), "weekday_from_monday": d.weekday().num_days_from_monday()})
}

fn cmp_date(loc: &mut Local, entry: &str, input: &dyn Fn() -> Value, got: Option<NaiveDate>, exp: Option<Ymd>, why_none: &str) {
    loc.eval();
    // reading the returned value is itself monitored: a value whose accessors panic is a wrong value
    let ok = match (&got, exp) {
        (None, None) => Ok(true),
        (Some(g), Some(e)) => guard(|| date_is(g, e)),
        _ => Ok(false),
    };
    if !matches!(ok, Ok(true)) {
        let kind = match (&got, exp, &ok) {
            (_, _, Err(p)) => format!("unreadable-result/panic@{}", p.site()),
            (Some(_), None, _) => format!("some-for-{}", why_none),
            (None, Some(_), _) => "none-for-existing".to_string(),
            _ => "wrong-value".to_string(),
        };
        let observed = got.as_ref().map(|g| guard(|| show_date(g)).unwrap_or_else(|p| json!({"unreadable": p.to_json()})));
        loc.violation(
            &format!("C08/{}/{}", entry, kind),
            json!({"entry": entry, "input": input(), "expected": exp.map(|e| json!([e.0, e.1, e.2])), "observed": observed}),
        );
    }
}

fn cmp_dt(loc: &mut Local, entry: &str, input: &dyn Fn() -> Value, got: Option<NaiveDateTime>, exp: Option<Ymd>, why_none: &str, t: NaiveTime) {
    let time_kept = got.map(|g| g.time() == t && g.time().num_seconds_from_midnight() == t.num_seconds_from_midnight() && g.time().nanosecond() == t.nanosecond());
    if time_kept == Some(false) {
        loc.violation(
            &format!("C08/{}/time-not-kept", entry),
            json!({"entry": entry, "input": input(), "time_before": format!("{:?}", t), "time_after": got.map(|g| format!("{:?}", g.time()))}),
        );
    }
    cmp_date(loc, entry, input, got.map(|g| g.date()), exp, why_none);
}

/// Run one operation on the `NaiveDate` and on the `NaiveDateTime` carrying it; compare both.
macro_rules! date_op {
    ($loc:expr, $name:literal, $src:expr, $input:expr, $exp:expr, $why:expr, |$x:ident| $call:expr) => {{
        let inp = || $input;
        {
            let $x = $src.date;
            if let Some(g) = $loc.call(concat!("NaiveDate::", $name), &inp, || $call) {
                cmp_date($loc, concat!("NaiveDate::", $name), &inp, g, $exp, $why);
            }
        }
        if $src.with_dt {
            let $x = $src.dt;
            if let Some(g) = $loc.call(concat!("NaiveDateTime::", $name), &inp, || $call) {
                cmp_dt($loc, concat!("NaiveDateTime::", $name), &inp, g, $exp, $why, $src.t);
            }
        }
        // (a leap-second representation in the very last second of the range compares greater than
        // MAX_UTC and is refused by DateTime's range filter; whether that value "exists" is not
        // something the property decides — such targets are left to the NaiveDateTime carrier)
        let past_max_utc = $exp == Some((rc::MAX_YEAR, 12, 31)) && $src.t > NaiveTime::from_hms_nano_opt(23, 59, 59, 999_999_999).expect("time");
        if $src.with_dt && !past_max_utc {
            // the zone-aware carrier (UTC: wall clock = stored value) goes through its own Datelike impl
            let $x = Utc.from_utc_datetime(&$src.dt);
            if let Some(g) = $loc.call(concat!("DateTime<Utc>::", $name), &inp, || $call) {
                cmp_dt($loc, concat!("DateTime<Utc>::", $name), &inp, g.map(|v| v.naive_utc()), $exp, $why, $src.t);
            }
        }
        // ... and with an offset of hours, minutes and seconds, so that the stored UTC value has another
        // date, minute and second than the wall clock the operation must act on (away from the range
        // ends: the one-day headroom there is C04's business)
        let inner = |y: i64| y > rc::MIN_YEAR + 1 && y < rc::MAX_YEAR - 1;
        if $src.with_dt && inner($src.y) && $exp.map_or(true, |e: Ymd| inner(e.0)) {
            let off = if $src.n % 2 == 0 { 49_639 } else { -49_639 };
            if let Some($x) = chrono::FixedOffset::east_opt(off).and_then(|fo| fo.from_local_datetime(&$src.dt).single()) {
                if let Some(g) = $loc.call(concat!("DateTime<FixedOffset>::", $name), &inp, || $call) {
                    cmp_dt($loc, concat!("DateTime<FixedOffset>::", $name), &inp, g.map(|v| v.naive_local()), $exp, $why, $src.t);
                }
            }
        }
    }};
}

#[derive(Clone, Copy)]
struct Src {
    y: i64,
    m: i64,
    d: i64,
    n: i64,
    date: NaiveDate,
    dt: NaiveDateTime,
    t: NaiveTime,
    with_dt: bool,
}

fn time_pool() -> Vec<NaiveTime> {
    [(0, 0, 0, 0u32), (12, 34, 56, 789), (23, 59, 59, 999_999_999), (23, 59, 59, 1_500_000_000), (0, 0, 59, 1_000_000_000), (6, 7, 8, 1)]
        .iter()
        .map(|&(h, mi, s, ns)| NaiveTime::from_hms_nano_opt(h, mi, s, ns).expect("time pool"))
        .collect()
}

fn mk_src(rep: &Report, y: i64, m: i64, d: i64, t: NaiveTime, with_dt: bool) -> Option<Src> {
    match guard(|| NaiveDate::from_ymd_opt(y as i32, m as u32, d as u32)) {
        Ok(Some(date)) => Some(Src { y, m, d, n: rc::day_number(y, m, d), date, dt: NaiveDateTime::new(date, t), t, with_dt }),
        other => {
            rep.harness_error(format!("cannot construct input date {:?}: {:?}", (y, m, d), other.map_err(|p| p.msg)));
            None
        }
    }
}

// ------------------------------------------------------------------------------------------------
// Generators
// ------------------------------------------------------------------------------------------------

fn year_pool() -> Vec<i64> {
    let mut v = vec![
        -10000, -9999, -401, -400, -399, -101, -100, -99, -5, -4, -3, -2, -1, 0, 1, 2, 3, 4, 5, 99, 100, 101, 399, 400, 401, 1582, 1600, 1899, 1900, 1901,
        1969, 1970, 1999, 2000, 2001, 2019, 2020, 2021, 2022, 2023, 2024, 2025, 2026, 2027, 2028, 2099, 2100, 2101, 2400, 9999, 10000,
    ];
    for k in 0..6 {
        v.push(rc::MIN_YEAR + k);
        v.push(rc::MAX_YEAR - k);
    }
    v
}

fn pick_ymd(rng: &mut Rng, years: &[i64], cat: &[i64]) -> Ymd {
    let biased_md = |rng: &mut Rng, y: i64| -> (i64, i64) {
        let m = match rng.below(8) {
            0 => 1,
            1 | 2 => 2,
            3 => 12,
            4 => *rng.pick(&[3i64, 4, 11, 8, 7]),
            _ => rng.range(1, 12),
        };
        let dim = rc::days_in_month(y, m);
        let d = match rng.below(8) {
            0 => 1,
            1 => 28,
            2 => 29,
            3 => 30,
            4 => 31,
            5 => dim,
            _ => rng.range(1, 31),
        };
        (m, d.min(dim))
    };
    match rng.below(10) {
        0..=2 => {
            let y = *rng.pick(years);
            let (m, d) = biased_md(rng, y);
            (y, m, d)
        }
        3 => {
            let y = if rng.chance(1, 2) { rc::MIN_YEAR + rng.range(0, 3) } else { rc::MAX_YEAR - rng.range(0, 3) };
            let (m, d) = biased_md(rng, y);
            (y, m, d)
        }
        4..=5 => rc::civil_from_days(gen::random_day(rng, cat)),
        6 => {
            let y = rng.range(rc::MIN_YEAR, rc::MAX_YEAR);
            let m = rng.range(1, 12);
            (y, m, rng.range(1, rc::days_in_month(y, m)))
        }
        7 => {
            let y = rng.range(rc::MIN_YEAR, rc::MAX_YEAR);
            let (m, d) = biased_md(rng, y);
            (y, m, d)
        }
        _ => {
            let y = rng.range(1890, 2110);
            let (m, d) = biased_md(rng, y);
            (y, m, d)
        }
    }
}

/// Replacement arguments (u32 domain) for the date fields.
fn date_args() -> Vec<u32> {
    let mut v: Vec<u32> = vec![
        0, 1, 2, 3, 10, 11, 12, 13, 14, 15, 16, 27, 28, 29, 30, 31, 32, 33, 34, 44, 45, 58, 59, 60, 61, 62, 63, 64, 65, 89, 90, 91, 92, 127, 128, 255, 256, 257,
        364, 365, 366, 367, 368, 511, 512, 513, 514, 1024, 1025, 4096, 4097, 8191, 8192, 8193, 65535, 65536, 65537,
    ];
    for p in [24u32, 28, 30, 31] {
        for k in [-1i64, 0, 1, 2, 12, 29, 31, 60, 366] {
            let x = (1i64 << p) + k;
            if x >= 0 && x <= u32::MAX as i64 {
                v.push(x as u32);
            }
        }
    }
    for k in 0..40u32 {
        v.push(u32::MAX - k);
    }
    v.push(u32::MAX - 365);
    v.push(u32::MAX - 366);
    v.sort();
    v.dedup();
    v
}

/// Replacement arguments for the time fields.
fn time_args() -> Vec<u32> {
    let mut v: Vec<u32> = vec![
        0, 1, 2, 11, 12, 13, 22, 23, 24, 25, 30, 58, 59, 60, 61, 62, 63, 64, 99, 100, 255, 256, 3599, 3600, 86_399, 86_400, 999, 1000, 999_999, 1_000_000,
        999_999_998, 999_999_999, 1_000_000_000, 1_000_000_001, 1_500_000_000, 1_999_999_998, 1_999_999_999, 2_000_000_000, 2_000_000_001,
        // hour * 3600, minute * 60 wrap around 2^32 for these:
        1_193_046, 1_193_047, 1_193_048, 71_582_788, 71_582_789, 71_582_790,
    ];
    for p in [31u32] {
        for k in [-1i64, 0, 1, 23, 59] {
            v.push(((1i64 << p) + k) as u32);
        }
    }
    for k in 0..8u32 {
        v.push(u32::MAX - k);
    }
    v.sort();
    v.dedup();
    v
}

// ------------------------------------------------------------------------------------------------
// Entry point
// ------------------------------------------------------------------------------------------------

pub fn run(ctx: &Ctx) -> Outcome {
    let floor: Vec<&'static str> = B.iter().copied().filter(|n| !NOT_FLOOR.contains(n)).collect();
    let rep = Report::with_bitmap_bits("C08", B, &floor, ctx.tier.pick(28, 30));
    for r in [rc::self_test(), crate::refinst::self_test(), self_test()] {
        if let Err(e) = r {
            rep.harness_error(e);
            return rep.finish(ctx, "self-test failed", &[]);
        }
    }
    fn twins_phase(ctx: &Ctx, rep: &Report) {
        crate::props::twins::c08(ctx, rep, Bk::deprecated_panicking_twins as usize);
    }
    let phases: [(&str, fn(&Ctx, &Report)); 9] = [
        ("deprecated_twins", twins_phase),
        ("product_walk", product_walk),
        ("months", months_phase),
        ("with_date", with_date_phase),
        ("with_time", with_time_phase),
        ("week", week_phase),
        ("nth_weekday_of_month", wom_phase),
        ("years_since", years_since_phase),
        ("quarter_year_ce_month_length", misc_phase),
    ];
    let mut per_phase = serde_json::Map::new();
    for (name, f) in phases {
        let (e0, t0) = (rep.evaluations(), std::time::Instant::now());
        f(ctx, &rep);
        // informational only; time never decides a verdict
        per_phase.insert(name.to_string(), json!({"evaluations": rep.evaluations() - e0, "wall_s": (t0.elapsed().as_secs_f64() * 100.0).round() / 100.0}));
    }
    rep.set_extra("phases", Value::Object(per_phase));
    rep.finish(
        ctx,
        "dates are drawn from a generator biased to days 28-31, Feb 29, Dec/Jan, the 6 years at either range end and century/400-year cycle years (plus uniform ones); each date meets a fixed catalogue of month counts (0,1,11,12,13,1200,4800, the exact distance to either range end -13..+13, i32::MAX+-1, u32::MAX) and of replacement arguments (0,1,12,13,28..33,59..61,365..367, bit-field edges 511..513/8191..8193, 2^31+-1, u32::MAX-39..u32::MAX) plus random ones, through NaiveDate and NaiveDateTime; a complete product (every date of year windows at MIN/0/1900/2000/MAX x months -50..50 x every small argument: month 0..=13, day 0..=32, 14 boundary ordinals, year +-1/+-4) runs in both tiers (95 years in quick, 4 x 1600 years in thorough); weeks: every date within 20 days of either range end, catalogue and random dates x 7 start weekdays; n-th weekday: pool/window years (incl. out-of-range and i32 extremes) x months {0..=13, 255, 256, 2^31+1, u32::MAX-1, u32::MAX} x 7 weekdays x all n 0..=255 plus random tuples; time fields: every 7th second of the day (every second in thorough) x fractions {0, 999999999, random, leap ones on :59} x argument catalogue incl. values whose *3600 / *60 wraps u32; month lengths: every 13th year (every year in thorough) and years outside the range up to the i32 extremes; year differences: constructed anniversaries (exact, +-1 day, +-1 ns for date-times) and random pairs. A case is non-trivial if the day is clamped or would not exist, the argument is outside the field's range, the result is None, the target year is a range-end year, the week touches a range end, n >= 5, or the pair lies within one day/ns of an anniversary; distinct = distinct (operation, date, argument) hashes (bitmap, collisions under-count)",
        &[
            "R-cal (harness/src/refcal.rs) is correct: self-tested against fixed anchors and walker-vs-closed-form at start of every run",
            "NaiveDate::from_ymd_opt / NaiveTime::from_hms_nano_opt build the inputs (their correctness is property C01's subject; a failure to build an input is a harness error)",
            "Month::num_days for a year outside NaiveDate's range: rustdoc says None, the code answers Some(length) for months other than February; both are accepted as long as a Some value is the calendar's length",
            "years_since with base on Feb 29 and self on Feb 28 of a common year: both k and k+1 accepted (the property text does not fix when the anniversary of Feb 29 falls)",
            "with_nanosecond accepts 1e9..2e9 on any second, as its rustdoc states (leap second may follow any whole second)",
        ],
    )
}

// ------------------------------------------------------------------------------------------------
// Month stepping
// ------------------------------------------------------------------------------------------------

fn check_months(loc: &mut Local, s: &Src, n: u32, sub: bool) {
    let delta = if sub { -(n as i64) } else { n as i64 };
    let (exp, (ty, tm), clamped) = months_oracle(s.y, s.m, s.d, delta);
    let why = if ty > rc::MAX_YEAR as i128 { "target-year-above-range" } else { "target-year-below-range" };
    let (y, m, d) = (s.y, s.m, s.d);
    let mo = Months::new(n);
    if sub {
        date_op!(loc, "checked_sub_months", s, json!({"self": [y, m, d], "months": n}), exp, why, |x| x.checked_sub_months(mo));
    } else {
        date_op!(loc, "checked_add_months", s, json!({"self": [y, m, d], "months": n}), exp, why, |x| x.checked_add_months(mo));
    }
    if s.with_dt {
        loc.bucket(Bk::months_via_datetime as usize);
    }
    // operator forms: documented to panic when out of range, so only compared when a result exists
    if exp.is_some() && (n < 64 || n % 3 == 0 || clamped) {
        loc.bucket(Bk::months_operator_form as usize);
        let inp = || json!({"self": [y, m, d], "months": n, "sub": sub});
        let (date, dt) = (s.date, s.dt);
        match guard(|| if sub { (date - mo, dt - mo) } else { (date + mo, dt + mo) }) {
            Ok((a, b)) => {
                cmp_date(loc, if sub { "NaiveDate-Months" } else { "NaiveDate+Months" }, &inp, Some(a), exp, why);
                cmp_dt(loc, if sub { "NaiveDateTime-Months" } else { "NaiveDateTime+Months" }, &inp, Some(b), exp, why, s.t);
            }
            Err(p) => loc.violation(
                &format!("C08/{}/panic-although-result-exists@{}", if sub { "Naive*-Months" } else { "Naive*+Months" }, p.site()),
                json!({"input": inp(), "expected": exp.map(|e| json!([e.0, e.1, e.2])), "panic": p.to_json()}),
            ),
        }
    }
    // coverage
    let mut nt = clamped || exp.is_none() || s.d >= 28;
    if n == 0 {
        loc.bucket(Bk::months_zero as usize);
    }
    match exp {
        Some((ey, em, ed)) => {
            if clamped {
                loc.bucket(match ed {
                    30 => Bk::months_clamp_to_30,
                    29 => Bk::months_clamp_to_feb29,
                    _ => Bk::months_clamp_to_feb28,
                } as usize);
            } else {
                loc.bucket(Bk::months_no_clamp as usize);
            }
            if ey != s.y {
                loc.bucket(if sub { Bk::months_year_rollover_back } else { Bk::months_year_rollover_fwd } as usize);
            }
            if ey == rc::MAX_YEAR && s.y != rc::MAX_YEAR {
                loc.bucket(Bk::months_target_max_year as usize);
                nt = true;
            }
            if ey == rc::MIN_YEAR && s.y != rc::MIN_YEAR {
                loc.bucket(Bk::months_target_min_year as usize);
                nt = true;
            }
            if ey == rc::MAX_YEAR && em == 12 && n > 0 {
                loc.bucket(Bk::months_last_representable_month as usize);
            }
            if ey == rc::MIN_YEAR && em == 1 && n > 0 {
                loc.bucket(Bk::months_first_representable_month as usize);
            }
            if ey < 0 && n > 0 {
                loc.bucket(Bk::months_negative_year_floor as usize);
            }
        }
        None => {
            loc.bucket(if ty > 0 { Bk::months_none_above } else { Bk::months_none_below } as usize);
        }
    }
    let _ = tm;
    if n > i32::MAX as u32 {
        loc.bucket(Bk::months_n_gt_i32max as usize);
    }
    if n == i32::MAX as u32 {
        loc.bucket(Bk::months_n_i32max as usize);
    }
    if n == u32::MAX {
        loc.bucket(Bk::months_n_u32max as usize);
    }
    if nt {
        loc.nontrivial(h2(1, h2(s.n as u64, (n as u64) * 2 + sub as u64)));
    }
}

fn month_counts(rng: &mut Rng, y: i64, m: i64, out: &mut Vec<u32>) {
    out.clear();
    out.extend_from_slice(&[0, 1, 2, 3, 6, 11, 12, 13, 23, 24, 25, 36, 48, 1199, 1200, 1201, 4799, 4800, 4801]);
    let total = y * 12 + m - 1;
    for dist in [MAX_T - total, total - MIN_T] {
        for k in [-13i64, -12, -11, -2, -1, 0, 1, 2, 11, 12, 13] {
            let x = dist + k;
            if (0..=u32::MAX as i64).contains(&x) {
                out.push(x as u32);
            }
        }
    }
    let im = i32::MAX as u32;
    out.extend_from_slice(&[im - 1, im, im + 1, im + 2, u32::MAX - 1, u32::MAX, 1 << 24, 1 << 30]);
    for _ in 0..4 {
        out.push(rng.below(60) as u32);
    }
    for _ in 0..2 {
        out.push(rng.below(6_400_000) as u32);
        out.push(rng.log_u64(32) as u32);
    }
    out.push(rng.next() as u32);
}

fn months_phase(ctx: &Ctx, rep: &Report) {
    let n_dates = ctx.n(60_000, 2_000_000);
    let n_shards = 64usize;
    let per = (n_dates / n_shards as u64).max(1);
    let years = year_pool();
    let cat = gen::catalogue_days();
    let times = time_pool();
    par_shards(rep, ctx.threads, n_shards, |shard| {
        let mut rng = Rng::new(ctx.seed, "C08/months", shard as u64);
        let mut loc = rep.local();
        let mut ns = Vec::new();
        for i in 0..per {
            let (y, m, d) = pick_ymd(&mut rng, &years, &cat);
            let t = times[(i % times.len() as u64) as usize];
            let Some(s) = mk_src(rep, y, m, d, t, true) else { continue };
            month_counts(&mut rng, y, m, &mut ns);
            for &n in &ns {
                check_months(&mut loc, &s, n, false);
                check_months(&mut loc, &s, n, true);
            }
            if i < 2 {
                let e = months_oracle(y, m, d, 13).0;
                loc.sample(|| sample_guard(|| json!({"op": "checked_add_months", "self": [y, m, d], "months": 13, "expected": e.map(|e| json!([e.0, e.1, e.2])), "chrono": s.date.checked_add_months(Months::new(13)).map(|d| d.to_string())})));
            }
        }
    });
}

// ------------------------------------------------------------------------------------------------
// Date field replacement
// ------------------------------------------------------------------------------------------------

fn check_with_year(loc: &mut Local, s: &Src, yy: i64) {
    let (y, m, d) = (s.y, s.m, s.d);
    let a = yy as i32;
    let exp = if in_range_year(yy) && rc::valid_ymd(yy, m, d) { Some((yy, m, d)) } else { None };
    let why = if !in_range_year(yy) { "year-out-of-range" } else { "feb29-in-common-year" };
    date_op!(loc, "with_year", s, json!({"self": [y, m, d], "year": a}), exp, why, |x| x.with_year(a));
    let feb29 = m == 2 && d == 29;
    match exp {
        Some(_) => {
            loc.bucket(Bk::with_year_some as usize);
            if yy == y {
                loc.bucket(Bk::with_year_identity as usize);
            }
            if feb29 && yy != y {
                loc.bucket(Bk::with_year_feb29_to_leap as usize);
            }
            if yy == rc::MIN_YEAR || yy == rc::MAX_YEAR {
                loc.bucket(Bk::with_year_range_end_some as usize);
            }
        }
        None => {
            if in_range_year(yy) {
                loc.bucket(Bk::with_year_none_feb29 as usize);
            } else {
                loc.bucket(Bk::with_year_none_out_of_range as usize);
                if a == i32::MIN || a == i32::MAX {
                    loc.bucket(Bk::with_year_i32_extreme as usize);
                }
            }
        }
    }
    if exp.is_none() || feb29 || (yy - rc::MIN_YEAR).abs() <= 1 || (yy - rc::MAX_YEAR).abs() <= 1 || rc::is_leap(yy) != rc::is_leap(y) {
        loc.nontrivial(h2(2, h2(s.n as u64, a as u64)));
    }
}

/// Which of the six u32-argument replacements
#[derive(Clone, Copy, PartialEq)]
enum DF {
    Month,
    Month0,
    Day,
    Day0,
    Ord,
    Ord0,
}

fn check_with_field(loc: &mut Local, s: &Src, f: DF, a: u32) {
    let (y, m, d) = (s.y, s.m, s.d);
    let zero_based = matches!(f, DF::Month0 | DF::Day0 | DF::Ord0);
    let v = a as i64 + if zero_based { 1 } else { 0 }; // the 1-based field value meant by the argument
    let (exp, why): (Option<Ymd>, &str) = match f {
        DF::Month | DF::Month0 => {
            if !(1..=12).contains(&v) {
                (None, "invalid-month")
            } else if d > rc::days_in_month(y, v) {
                (None, "day-missing-in-target-month")
            } else {
                (Some((y, v, d)), "")
            }
        }
        DF::Day | DF::Day0 => {
            if !(1..=31).contains(&v) {
                (None, "invalid-day")
            } else if v > rc::days_in_month(y, m) {
                (None, "day-missing-in-month")
            } else {
                (Some((y, m, v)), "")
            }
        }
        DF::Ord | DF::Ord0 => {
            if !(1..=366).contains(&v) {
                (None, "invalid-ordinal")
            } else if v > rc::days_in_year(y) {
                (None, "ordinal-366-in-common-year")
            } else {
                let (mm, dd) = rc::md_from_ordinal(y, v);
                (Some((y, mm, dd)), "")
            }
        }
    };
    match f {
        DF::Month => date_op!(loc, "with_month", s, json!({"self": [y, m, d], "month": a}), exp, why, |x| x.with_month(a)),
        DF::Month0 => date_op!(loc, "with_month0", s, json!({"self": [y, m, d], "month0": a}), exp, why, |x| x.with_month0(a)),
        DF::Day => date_op!(loc, "with_day", s, json!({"self": [y, m, d], "day": a}), exp, why, |x| x.with_day(a)),
        DF::Day0 => date_op!(loc, "with_day0", s, json!({"self": [y, m, d], "day0": a}), exp, why, |x| x.with_day0(a)),
        DF::Ord => date_op!(loc, "with_ordinal", s, json!({"self": [y, m, d], "ordinal": a}), exp, why, |x| x.with_ordinal(a)),
        DF::Ord0 => date_op!(loc, "with_ordinal0", s, json!({"self": [y, m, d], "ordinal0": a}), exp, why, |x| x.with_ordinal0(a)),
    }
    if s.with_dt {
        loc.bucket(Bk::with_date_via_datetime as usize);
    }
    let b = match (f, exp.is_some(), why) {
        (DF::Month, true, _) => Some(Bk::with_month_some),
        (DF::Month0, true, _) => Some(Bk::with_month0_some),
        (DF::Month | DF::Month0, false, "invalid-month") => Some(Bk::with_month_none_invalid),
        (DF::Month | DF::Month0, false, _) => Some(Bk::with_month_none_day_missing),
        (DF::Day, true, _) => Some(Bk::with_day_some),
        (DF::Day0, true, _) => Some(Bk::with_day0_some),
        (DF::Day | DF::Day0, false, "invalid-day") => Some(Bk::with_day_none_invalid),
        (DF::Day | DF::Day0, false, _) => Some(Bk::with_day_none_missing),
        (DF::Ord, true, _) => Some(if v == 366 { Bk::with_ordinal_some_366_leap } else { Bk::with_ordinal_some }),
        (DF::Ord0, true, _) => Some(if v == 366 { Bk::with_ordinal_some_366_leap } else { Bk::with_ordinal0_some }),
        (DF::Ord | DF::Ord0, false, "invalid-ordinal") => Some(Bk::with_ordinal_none_invalid),
        (DF::Ord | DF::Ord0, false, _) => Some(Bk::with_ordinal_none_366_common),
    };
    if let Some(b) = b {
        loc.bucket(b as usize);
    }
    if a == u32::MAX {
        match f {
            DF::Month0 => loc.bucket(Bk::with_month0_none_u32max as usize),
            DF::Day0 => loc.bucket(Bk::with_day0_none_u32max as usize),
            DF::Ord0 => loc.bucket(Bk::with_ordinal0_none_u32max as usize),
            _ => {}
        }
    }
    if a >= 1 << 31 {
        loc.bucket(Bk::with_arg_ge_2pow31 as usize);
    }
    let nt = exp.is_none() || v >= 28 && !matches!(f, DF::Ord | DF::Ord0) || v >= 365 || d >= 29;
    if nt {
        loc.nontrivial(h2(3 + f as u64, h2(s.n as u64, a as u64)));
    }
}

const ALL_DF: [DF; 6] = [DF::Month, DF::Month0, DF::Day, DF::Day0, DF::Ord, DF::Ord0];

fn year_args(rng: &mut Rng, y: i64, out: &mut Vec<i64>) {
    out.clear();
    out.extend_from_slice(&[
        rc::MIN_YEAR - 2, rc::MIN_YEAR - 1, rc::MIN_YEAR, rc::MIN_YEAR + 1, rc::MIN_YEAR + 3, rc::MAX_YEAR - 2, rc::MAX_YEAR - 1, rc::MAX_YEAR, rc::MAX_YEAR + 1,
        rc::MAX_YEAR + 2, -400_000, 400_000, -262_144, 262_144, -1, 0, 1, 4, 100, 400, 1900, 2000, 2023, 2024,
        i32::MIN as i64, i32::MIN as i64 + 1, i32::MAX as i64 - 1, i32::MAX as i64, 1 << 18, -(1 << 18), (1 << 18) - 1, 1 << 19, -(1 << 19),
        y, y - 1, y + 1, y - 4, y + 4, y + 100, y + 400, -y,
    ]);
    for _ in 0..3 {
        out.push(rng.range(rc::MIN_YEAR, rc::MAX_YEAR));
    }
    out.push(rng.next() as i32 as i64);
    out.push(rng.range(1, 3000) * 4);
    for v in out.iter_mut() {
        *v = (*v).clamp(i32::MIN as i64, i32::MAX as i64);
    }
}

fn with_date_phase(ctx: &Ctx, rep: &Report) {
    let n_dates = ctx.n(20_000, 600_000);
    let n_shards = 64usize;
    let per = (n_dates / n_shards as u64).max(1);
    let years = year_pool();
    let cat = gen::catalogue_days();
    let times = time_pool();
    let args = date_args();
    par_shards(rep, ctx.threads, n_shards, |shard| {
        let mut rng = Rng::new(ctx.seed, "C08/with_date", shard as u64);
        let mut loc = rep.local();
        let mut ys = Vec::new();
        for i in 0..per {
            let (y, m, d) = pick_ymd(&mut rng, &years, &cat);
            let t = times[(i % times.len() as u64) as usize];
            let Some(s) = mk_src(rep, y, m, d, t, true) else { continue };
            year_args(&mut rng, y, &mut ys);
            for &yy in &ys {
                check_with_year(&mut loc, &s, yy);
            }
            for f in ALL_DF {
                for &a in &args {
                    check_with_field(&mut loc, &s, f, a);
                }
                for k in 0..7 {
                    let a = match k {
                        0..=2 => rng.below(40) as u32,
                        3 | 4 => rng.below(400) as u32,
                        _ => rng.next() as u32,
                    };
                    check_with_field(&mut loc, &s, f, a);
                }
            }
            if i < 2 {
                loc.sample(|| sample_guard(|| json!({"op": "with_day(31)", "self": [y, m, d], "expected_some": rc::days_in_month(y, m) == 31, "chrono": s.date.with_day(31).map(|d| d.to_string())})));
            }
        }
    });
}

// ------------------------------------------------------------------------------------------------
// Product walk: every date of year windows x months -50..=50 x all small replacement arguments
// ------------------------------------------------------------------------------------------------

fn product_walk(ctx: &Ctx, rep: &Report) {
    // (first year, number of years)
    let windows: Vec<(i64, i64)> = if ctx.tier == Tier::Thorough {
        vec![(rc::MIN_YEAR, 1600), (-800, 1600), (1200, 1600), (rc::MAX_YEAR - 1599, 1600)]
    } else {
        vec![(rc::MIN_YEAR, 8), (-12, 24), (1890, 20), (1995, 35), (rc::MAX_YEAR - 7, 8)]
    };
    let mut yrs: Vec<i64> = Vec::new();
    for (y0, k) in windows {
        yrs.extend(y0..y0 + k);
    }
    let t = time_pool()[1];
    let ords: [u32; 14] = [0, 1, 31, 32, 59, 60, 61, 91, 182, 335, 364, 365, 366, 367];
    par_shards(rep, ctx.threads, yrs.len(), |shard| {
        let y = yrs[shard];
        let mut loc = rep.local();
        for m in 1..=12i64 {
            for d in 1..=rc::days_in_month(y, m) {
                let Some(s) = mk_src(rep, y, m, d, t, false) else { continue };
                loc.bucket(Bk::product_walk_date as usize);
                for k in -50i64..=50 {
                    check_months(&mut loc, &s, k.unsigned_abs() as u32, k < 0);
                }
                for a in 0..=13u32 {
                    check_with_field(&mut loc, &s, DF::Month, a);
                    check_with_field(&mut loc, &s, DF::Month0, a);
                }
                for a in 0..=32u32 {
                    check_with_field(&mut loc, &s, DF::Day, a);
                    check_with_field(&mut loc, &s, DF::Day0, a);
                }
                for &a in &ords {
                    check_with_field(&mut loc, &s, DF::Ord, a);
                    check_with_field(&mut loc, &s, DF::Ord0, a);
                }
                let o = rc::ordinal_of(y, m, d) as u32;
                check_with_field(&mut loc, &s, DF::Ord, o);
                check_with_field(&mut loc, &s, DF::Ord0, o);
                for dy in [-4i64, -1, 0, 1, 3, 4] {
                    check_with_year(&mut loc, &s, y + dy);
                }
            }
        }
    });
}

// ------------------------------------------------------------------------------------------------
// Time field replacement
// ------------------------------------------------------------------------------------------------

#[derive(Clone, Copy, PartialEq)]
enum TF {
    Hour,
    Minute,
    Second,
    Nano,
}

/// reference time: (hour, minute, second, frac) with frac < 2e9
type Hmsf = (i64, i64, i64, i64);

fn time_is(t: &NaiveTime, e: Hmsf) -> bool {
    let ok = t.hour() as i64 == e.0
        && t.minute() as i64 == e.1
        && t.second() as i64 == e.2
        && t.nanosecond() as i64 == e.3
        && t.num_seconds_from_midnight() as i64 == e.0 * 3600 + e.1 * 60 + e.2;
    // equality with the independently constructed value where the constructor admits it
    let ctor = if e.3 < 1_000_000_000 || e.2 == 59 { NaiveTime::from_hms_nano_opt(e.0 as u32, e.1 as u32, e.2 as u32, e.3 as u32).map(|c| c == *t) } else { None };
    ok && ctor != Some(false)
}

fn cmp_time(loc: &mut Local, entry: &str, input: &dyn Fn() -> Value, got: Option<NaiveTime>, exp: Option<Hmsf>, why_none: &str) {
    loc.eval();
    let ok = match (&got, exp) {
        (None, None) => Ok(true),
        (Some(g), Some(e)) => guard(|| time_is(g, e)),
        _ => Ok(false),
    };
    if !matches!(ok, Ok(true)) {
        let kind = match (&got, exp, &ok) {
            (_, _, Err(p)) => format!("unreadable-result/panic@{}", p.site()),
            (Some(_), None, _) => format!("some-for-{}", why_none),
            (None, Some(_), _) => "none-for-existing".to_string(),
            _ => "wrong-value".to_string(),
        };
        let observed = got.map(|g| guard(|| json!([g.hour(), g.minute(), g.second(), g.nanosecond()])).unwrap_or_else(|p| json!({"unreadable": p.to_json()})));
        loc.violation(
            &format!("C08/{}/{}", entry, kind),
            json!({"entry": entry, "input": input(), "expected_hmsf": exp.map(|e| json!([e.0, e.1, e.2, e.3])), "observed_hmsf": observed}),
        );
    }
}

macro_rules! time_op {
    ($loc:expr, $name:literal, $t:expr, $dt:expr, $input:expr, $exp:expr, $why:expr, |$x:ident| $call:expr) => {{
        let inp = || $input;
        {
            let $x = $t;
            if let Some(g) = $loc.call(concat!("NaiveTime::", $name), &inp, || $call) {
                cmp_time($loc, concat!("NaiveTime::", $name), &inp, g, $exp, $why);
            }
        }
        if let Some(dt) = $dt {
            let $x = dt;
            if let Some(g) = $loc.call(concat!("NaiveDateTime::", $name), &inp, || $call) {
                if let Some(r) = g {
                    if r.date() != dt.date() {
                        $loc.violation(concat!("C08/NaiveDateTime::", $name, "/date-not-kept"), json!({"input": inp(), "date_before": dt.date().to_string(), "date_after": r.date().to_string()}));
                    }
                }
                cmp_time($loc, concat!("NaiveDateTime::", $name), &inp, g.map(|r| r.time()), $exp, $why);
            }
        }
        if let Some(dt) = $dt.filter(|dt| dt.year() > rc::MIN_YEAR as i32 + 1 && dt.year() < rc::MAX_YEAR as i32 - 1) {
            // an offset with minutes and seconds: the wall-clock field differs from the stored UTC field
            let off = if dt.day() % 2 == 0 { 49_639 } else { -49_639 };
            if let Some($x) = chrono::FixedOffset::east_opt(off).and_then(|fo| fo.from_local_datetime(&dt).single()) {
                if let Some(g) = $loc.call(concat!("DateTime<FixedOffset>::", $name), &inp, || $call) {
                    if let Some(r) = &g {
                        if r.naive_local().date() != dt.date() {
                            $loc.violation(concat!("C08/DateTime<FixedOffset>::", $name, "/date-not-kept"), json!({"input": inp(), "offset": off, "date_before": dt.date().to_string(), "date_after": r.naive_local().date().to_string()}));
                        }
                    }
                    cmp_time($loc, concat!("DateTime<FixedOffset>::", $name), &inp, g.map(|r| r.naive_local().time()), $exp, $why);
                }
            }
        }
        if let Some(dt) = $dt.filter(|dt| dt.date() != NaiveDate::MAX) {
            let $x = Utc.from_utc_datetime(&dt);
            if let Some(g) = $loc.call(concat!("DateTime<Utc>::", $name), &inp, || $call) {
                if let Some(r) = g {
                    if r.naive_utc().date() != dt.date() {
                        $loc.violation(concat!("C08/DateTime<Utc>::", $name, "/date-not-kept"), json!({"input": inp(), "date_before": dt.date().to_string(), "date_after": r.naive_utc().date().to_string()}));
                    }
                }
                cmp_time($loc, concat!("DateTime<Utc>::", $name), &inp, g.map(|r| r.naive_utc().time()), $exp, $why);
            }
        }
    }};
}

fn check_with_time(loc: &mut Local, src: Hmsf, t: NaiveTime, dt: Option<NaiveDateTime>, f: TF, a: u32) {
    let (h, mi, s, fr) = src;
    let v = a as i64;
    let (exp, why): (Option<Hmsf>, &str) = match f {
        TF::Hour => if v < 24 { (Some((v, mi, s, fr)), "") } else { (None, "hour-ge-24") },
        TF::Minute => if v < 60 { (Some((h, v, s, fr)), "") } else { (None, "minute-ge-60") },
        TF::Second => if v < 60 { (Some((h, mi, v, fr)), "") } else { (None, "second-ge-60") },
        TF::Nano => if v < 2_000_000_000 { (Some((h, mi, s, v)), "") } else { (None, "nanosecond-ge-2e9") },
    };
    match f {
        TF::Hour => time_op!(loc, "with_hour", t, dt, json!({"self_hmsf": [h, mi, s, fr], "hour": a}), exp, why, |x| x.with_hour(a)),
        TF::Minute => time_op!(loc, "with_minute", t, dt, json!({"self_hmsf": [h, mi, s, fr], "minute": a}), exp, why, |x| x.with_minute(a)),
        TF::Second => time_op!(loc, "with_second", t, dt, json!({"self_hmsf": [h, mi, s, fr], "second": a}), exp, why, |x| x.with_second(a)),
        TF::Nano => time_op!(loc, "with_nanosecond", t, dt, json!({"self_hmsf": [h, mi, s, fr], "nanosecond": a}), exp, why, |x| x.with_nanosecond(a)),
    }
    if dt.is_some() {
        loc.bucket(Bk::time_via_datetime as usize);
    }
    let b = match (f, exp.is_some()) {
        (TF::Hour, true) => Bk::time_hour_some,
        (TF::Hour, false) => Bk::time_hour_none,
        (TF::Minute, true) => Bk::time_minute_some,
        (TF::Minute, false) => Bk::time_minute_none,
        (TF::Second, true) => Bk::time_second_some,
        (TF::Second, false) => Bk::time_second_none,
        (TF::Nano, true) => if v >= 1_000_000_000 { Bk::time_nano_leap_some } else { Bk::time_nano_some },
        (TF::Nano, false) => Bk::time_nano_none,
    };
    loc.bucket(b as usize);
    if fr >= 1_000_000_000 {
        loc.bucket(if s == 59 { Bk::time_leap_source } else { Bk::time_leap_on_non59_source } as usize);
    }
    let wraps = match f {
        TF::Hour => v * 3600 > u32::MAX as i64,
        TF::Minute => v * 60 > u32::MAX as i64,
        _ => false,
    };
    if wraps {
        loc.bucket(Bk::time_arg_mul_wrap as usize);
    }
    if exp.is_none() || fr >= 1_000_000_000 || v >= 1_000_000_000 || v == 23 || v == 59 || v == 0 {
        loc.nontrivial(h2(10 + f as u64, h2((h * 3600 + mi * 60 + s) as u64 * 2_000_000_000 + fr as u64, a as u64)));
    }
}

const ALL_TF: [TF; 4] = [TF::Hour, TF::Minute, TF::Second, TF::Nano];

fn with_time_phase(ctx: &Ctx, rep: &Report) {
    let args = time_args();
    let n_shards = 96usize;
    // thorough: every second of the day (x fractions); quick: every 29th second + catalogue
    let step: i64 = ctx.tier.pick(7, 1);
    let cat_secs = gen::catalogue_secs();
    let cat_days = gen::catalogue_days();
    let per_shard = 86_400 / n_shards as i64; // 900
    par_shards(rep, ctx.threads, n_shards, |shard| {
        let mut rng = Rng::new(ctx.seed, "C08/with_time", shard as u64);
        let mut loc = rep.local();
        let lo = per_shard * shard as i64;
        let mut secs: Vec<i64> = (lo..lo + per_shard).filter(|s| s % step == 0 || s % 60 == 59 && s % (step * 2 + 1) == 0).collect();
        secs.extend(cat_secs.iter().filter(|s| **s >= lo && **s < lo + per_shard));
        for (i, &sec) in secs.iter().enumerate() {
            let (h, mi, s) = (sec / 3600, sec / 60 % 60, sec % 60);
            let mut fracs: Vec<i64> = vec![0, 999_999_999, gen::random_frac(&mut rng)];
            if s == 59 {
                fracs.push(1_000_000_000);
                fracs.push(1_999_999_999);
                fracs.push(1_000_000_000 + rng.range(0, 999_999_999));
            }
            for fr in fracs {
                let Some(t) = NaiveTime::from_hms_nano_opt(h as u32, mi as u32, s as u32, fr as u32) else {
                    rep.harness_error(format!("cannot construct input time {:?}", (h, mi, s, fr)));
                    continue;
                };
                let dt = if i % 2 == 0 {
                    let n = gen::random_day(&mut rng, &cat_days);
                    NaiveDate::from_num_days_from_ce_opt(n as i32).map(|d| NaiveDateTime::new(d, t))
                } else {
                    None
                };
                for f in ALL_TF {
                    for &a in &args {
                        check_with_time(&mut loc, (h, mi, s, fr), t, dt, f, a);
                    }
                    for k in 0..4 {
                        let a = match k {
                            0 | 1 => rng.below(70) as u32,
                            2 => rng.below(2_100_000_000) as u32,
                            _ => rng.next() as u32,
                        };
                        check_with_time(&mut loc, (h, mi, s, fr), t, dt, f, a);
                    }
                }
                // chained: a leap fraction put on a second other than 59 (allowed by with_nanosecond's
                // rustdoc), then every other field replaced: the fraction must be kept
                if s != 59 && i % 4 == 0 {
                    let lf = 1_000_000_000 + rng.range(0, 999_999_999);
                    if let Some(Some(lt)) = loc.call("NaiveTime::with_nanosecond", || json!({"self_hmsf": [h, mi, s, fr], "nanosecond": lf}), || t.with_nanosecond(lf as u32)) {
                        for f in ALL_TF {
                            for a in [0u32, 23, 24, 59, 60, rng.below(60) as u32, 5, 1_999_999_999] {
                                check_with_time(&mut loc, (h, mi, s, lf), lt, None, f, a);
                            }
                        }
                    }
                }
            }
            if i == 0 && shard < 2 {
                loc.sample(|| sample_guard(|| json!({"op": "with_minute(59)", "self_hms": [h, mi, s], "chrono": NaiveTime::from_hms_opt(h as u32, mi as u32, s as u32).and_then(|t| t.with_minute(59)).map(|t| t.to_string())})));
            }
        }
    });
}

// ------------------------------------------------------------------------------------------------
// Week helper
// ------------------------------------------------------------------------------------------------

fn check_week(loc: &mut Local, n: i64, date: NaiveDate, start: i64) {
    let (min, max) = (rc::min_day(), rc::max_day());
    let wd = rc::weekday(n);
    let back = (wd - start).rem_euclid(7);
    let first = n - back;
    let last = first + 6;
    let exp_first = if first >= min { Some(first) } else { None };
    let exp_last = if last <= max { Some(last) } else { None };
    let sw = wd_of(start);
    let inp = || {
        let c = rc::civil_from_days(n);
        json!({"date_day_number": n, "date_ymd": [c.0, c.1, c.2], "start_weekday_from_monday": start})
    };
    // read a returned date under the panic monitor: (day number, weekday from Monday, equals the
    // date built from the expected day number)
    let read = |g: &NaiveDate, e: i64| guard(|| (g.num_days_from_ce() as i64, g.weekday().num_days_from_monday() as i64, NaiveDate::from_num_days_from_ce_opt(e as i32) == Some(*g)));
    let Some(w) = loc.call("NaiveDate::week", &inp, || date.week(sw)) else { return };
    let cmp = |loc: &mut Local, entry: &str, got: Option<NaiveDate>, exp: Option<i64>, why: &str| {
        loc.eval();
        let r = match (&got, exp) {
            (Some(g), Some(e)) => Some(read(g, e)),
            (Some(g), None) => Some(read(g, 0)),
            _ => None,
        };
        let ok = match (&got, exp, &r) {
            (None, None, _) => true,
            (Some(_), Some(e), Some(Ok((gn, gwd, eq)))) => *gn == e && *gwd == rc::weekday(e) && *eq,
            _ => false,
        };
        if !ok {
            let kind = match (&got, exp, &r) {
                (_, _, Some(Err(p))) => format!("unreadable-result/panic@{}", p.site()),
                (Some(_), None, _) => format!("some-for-{}", why),
                (None, Some(_), _) => "none-although-in-range".to_string(),
                _ => "wrong-day".to_string(),
            };
            let obs = r.as_ref().and_then(|r| r.as_ref().ok()).map(|x| x.0);
            loc.violation(&format!("C08/{}/{}", entry, kind), json!({"entry": entry, "input": inp(), "expected_day_number": exp, "observed_day_number": obs}));
        }
    };
    if let Some(g) = loc.call("NaiveWeek::checked_first_day", &inp, || w.checked_first_day()) {
        cmp(loc, "NaiveWeek::checked_first_day", g, exp_first, "first-day-below-range");
        // the property's own wording, independent of the oracle's arithmetic
        if let Some(g) = g {
            if let Ok((gn, gwd, _)) = read(&g, 0) {
                let diff = n - gn;
                if gwd != start || !(0..=6).contains(&diff) {
                    loc.violation("C08/NaiveWeek::checked_first_day/not-start-weekday-within-6-days-back", json!({"input": inp(), "observed_day_number": gn, "days_back": diff}));
                }
            }
        }
    }
    if let Some(g) = loc.call("NaiveWeek::checked_last_day", &inp, || w.checked_last_day()) {
        cmp(loc, "NaiveWeek::checked_last_day", g, exp_last, "last-day-above-range");
    }
    if let Some(g) = loc.call("NaiveWeek::checked_days", &inp, || w.checked_days()) {
        loc.eval();
        let both = exp_first.is_some() && exp_last.is_some();
        match (&g, both) {
            (None, false) => {}
            (None, true) => loc.violation("C08/NaiveWeek::checked_days/none-although-in-range", json!({"input": inp(), "expected": [exp_first, exp_last]})),
            (Some(_), false) => loc.violation("C08/NaiveWeek::checked_days/some-for-week-leaving-range", json!({"input": inp(), "expected": [exp_first, exp_last]})),
            (Some(r), true) => {
                let (f, l) = (first, last);
                let seen = guard(|| (read(r.start(), f), read(r.end(), l), r.contains(&date)));
                let ok = match &seen {
                    Ok((Ok((a, awd, aeq)), Ok((b, _, beq)), c)) => *a == f && *awd == start && *aeq && *b == l && *beq && *c && *b - *a == 6,
                    _ => false,
                };
                if !ok {
                    loc.violation("C08/NaiveWeek::checked_days/wrong-span", json!({"input": inp(), "expected": [f, l], "observed": format!("{:?}", seen.map(|(a, b, c)| (a.ok(), b.ok(), c)).ok())}));
                }
            }
        }
    }
    // panicking forms: documented to panic when a bound leaves the range; compared otherwise
    if exp_first.is_some() && exp_last.is_some() && (n % 5 == 0 || max - n < 30 || n - min < 30) {
        loc.bucket(Bk::week_panicking_forms as usize);
        match guard(|| {
            let (f, l, r) = (w.first_day(), w.last_day(), w.days());
            let span_ok = *r.start() == f && *r.end() == l && r.contains(&date);
            (f, l, span_ok)
        }) {
            Ok((f, l, span_ok)) => {
                cmp(loc, "NaiveWeek::first_day", Some(f), exp_first, "");
                cmp(loc, "NaiveWeek::last_day", Some(l), exp_last, "");
                loc.eval();
                if !span_ok {
                    loc.violation("C08/NaiveWeek::days/wrong-span", json!({"input": inp(), "expected": [first, last]}));
                }
            }
            Err(p) => loc.violation(&format!("C08/NaiveWeek::first_day,last_day,days/panic-although-in-range@{}", p.site()), json!({"input": inp(), "panic": p.to_json()})),
        }
    }
    loc.bucket(Bk::week_every_start as usize);
    match (exp_first, exp_last) {
        (Some(_), Some(_)) => loc.bucket(Bk::week_both_some as usize),
        (None, _) => loc.bucket(Bk::week_first_none_below as usize),
        (_, None) => loc.bucket(Bk::week_last_none_above as usize),
    }
    if back == 0 {
        loc.bucket(Bk::week_back_0 as usize);
    }
    if back == 6 {
        loc.bucket(Bk::week_back_6 as usize);
    }
    if back == 0 || back == 6 || first - min < 7 || max - last < 7 {
        loc.nontrivial(h2(20, h2(n as u64, start as u64)));
    }
}

fn week_phase(ctx: &Ctx, rep: &Report) {
    let (min, max) = (rc::min_day(), rc::max_day());
    let mut fixed: Vec<i64> = Vec::new();
    fixed.extend(min..min + 21);
    fixed.extend(max - 20..=max);
    fixed.extend(gen::catalogue_days());
    // dense windows
    let win: i64 = ctx.tier.pick(800, 150_000);
    for c in [0i64, rc::UNIX_EPOCH_DAY, rc::day_number(2000, 1, 1)] {
        fixed.extend(c - win / 2..c + win / 2);
    }
    fixed.extend(min + 21..min + 21 + win);
    fixed.extend(max - 20 - win..max - 20);
    let n_random = ctx.n(200_000, 6_000_000);
    let n_shards = 64usize;
    let cat = gen::catalogue_days();
    par_shards(rep, ctx.threads, n_shards, |shard| {
        let mut rng = Rng::new(ctx.seed, "C08/week", shard as u64);
        let mut loc = rep.local();
        let one = |loc: &mut Local, n: i64| {
            let Some(date) = NaiveDate::from_num_days_from_ce_opt(n as i32) else {
                rep.harness_error(format!("cannot construct date for day number {}", n));
                return;
            };
            for start in 0..7 {
                check_week(loc, n, date, start);
            }
        };
        for (i, &n) in fixed.iter().enumerate() {
            if i % n_shards == shard {
                one(&mut loc, n);
            }
        }
        for _ in 0..n_random / n_shards as u64 {
            let n = gen::random_day(&mut rng, &cat);
            one(&mut loc, n);
        }
        if shard == 0 {
            let d = NaiveDate::from_ymd_opt(2022, 5, 18).unwrap();
            loc.sample(|| sample_guard(|| json!({"op": "week(Thu)", "date": "2022-05-18", "expected": ["2022-05-12", "2022-05-18"], "chrono": [d.week(Weekday::Thu).checked_first_day().map(|x| x.to_string()), d.week(Weekday::Thu).checked_last_day().map(|x| x.to_string())]})));
        }
    });
}

// ------------------------------------------------------------------------------------------------
// n-th weekday of a month
// ------------------------------------------------------------------------------------------------

fn check_wom(loc: &mut Local, y: i64, m: u32, wd: i64, n: u8) {
    let expd = wom_oracle(y, m as i64, wd, n as i64);
    let exp = expd.map(|d| (y, m as i64, d));
    let why = if n == 0 {
        "n-zero"
    } else if !in_range_year(y) {
        "year-out-of-range"
    } else if !(1..=12).contains(&m) {
        "invalid-month"
    } else {
        "no-such-weekday-in-month"
    };
    let inp = || json!({"year": y, "month": m, "weekday_from_monday": wd, "n": n});
    if let Some(g) = loc.call("NaiveDate::from_weekday_of_month_opt", &inp, || NaiveDate::from_weekday_of_month_opt(y as i32, m, wd_of(wd), n)) {
        cmp_date(loc, "NaiveDate::from_weekday_of_month_opt", &inp, g, exp, why);
    }
    match exp {
        Some(_) => {
            loc.bucket(Bk::wom_some as usize);
            if n == 5 {
                loc.bucket(Bk::wom_some_n5 as usize);
            }
        }
        None => {
            let b = if n == 0 {
                Bk::wom_none_n0
            } else if !in_range_year(y) {
                Bk::wom_none_year_out
            } else if !(1..=12).contains(&m) {
                Bk::wom_none_bad_month
            } else if n == 5 {
                Bk::wom_none_n5
            } else {
                Bk::wom_none_n_large
            };
            loc.bucket(b as usize);
        }
    }
    if n >= 38 {
        loc.bucket(Bk::wom_n_ge_38 as usize);
    }
    if n >= 5 || n == 0 || exp.is_none() {
        loc.nontrivial(h2(30, h2(y as u64, (m as u64) << 16 | (wd as u64) << 8 | n as u64)));
    }
}

fn wom_phase(ctx: &Ctx, rep: &Report) {
    let mut yrs = year_pool();
    yrs.extend([rc::MIN_YEAR - 1, rc::MAX_YEAR + 1, i32::MIN as i64, i32::MAX as i64]);
    if ctx.tier == Tier::Thorough {
        for (y0, k) in [(rc::MIN_YEAR, 400i64), (-200, 400), (1800, 400), (rc::MAX_YEAR - 399, 400)] {
            yrs.extend(y0..y0 + k);
        }
    } else {
        yrs.extend(1990..2030);
    }
    yrs.sort();
    yrs.dedup();
    let months: [u32; 19] = [0, 1, 2, 3, 4, 5, 6, 7, 8, 9, 10, 11, 12, 13, 255, 256, (1 << 31) + 1, u32::MAX - 1, u32::MAX];
    par_shards(rep, ctx.threads, yrs.len(), |shard| {
        let y = yrs[shard];
        let mut loc = rep.local();
        for &m in &months {
            for wd in 0..7 {
                for n in 0..=255u8 {
                    check_wom(&mut loc, y, m, wd, n);
                }
            }
        }
        if y == 2017 {
            loc.sample(|| sample_guard(|| json!({"op": "from_weekday_of_month_opt", "input": [2017, 3, "Fri", 2], "expected": "2017-03-10", "chrono": NaiveDate::from_weekday_of_month_opt(2017, 3, Weekday::Fri, 2).map(|d| d.to_string())})));
        }
    });
    // random tuples
    let total = ctx.n(400_000, 10_000_000);
    let n_shards = 32usize;
    par_shards(rep, ctx.threads, n_shards, |shard| {
        let mut rng = Rng::new(ctx.seed, "C08/wom", shard as u64);
        let mut loc = rep.local();
        for _ in 0..total / n_shards as u64 {
            let y = match rng.below(8) {
                0 => rng.next() as i32 as i64,
                1 => rng.range(rc::MIN_YEAR - 3, rc::MIN_YEAR + 3),
                2 => rng.range(rc::MAX_YEAR - 3, rc::MAX_YEAR + 3),
                _ => rng.range(rc::MIN_YEAR, rc::MAX_YEAR),
            };
            let m = match rng.below(10) {
                0 => rng.next() as u32,
                1 => rng.below(16) as u32,
                _ => rng.range(1, 12) as u32,
            };
            let n = match rng.below(4) {
                0 => rng.below(256) as u8,
                _ => rng.below(7) as u8,
            };
            check_wom(&mut loc, y, m, rng.range(0, 6), n);
        }
    });
}

// ------------------------------------------------------------------------------------------------
// Whole years elapsed
// ------------------------------------------------------------------------------------------------

type Full = (i64, i64, i64, i64, i64); // y, m, d, secs, frac

fn mk_utc(f: Full) -> Option<DateTime<Utc>> {
    let d = NaiveDate::from_ymd_opt(f.0 as i32, f.1 as u32, f.2 as u32)?;
    let t = NaiveTime::from_num_seconds_from_midnight_opt(f.3 as u32, f.4 as u32)?;
    Some(Utc.from_utc_datetime(&NaiveDateTime::new(d, t)))
}

fn check_years_since(loc: &mut Local, s: Full, b: Full, with_time: bool) {
    let cmp = |loc: &mut Local, entry: &str, got: Option<u32>, s: Full, b: Full| {
        loc.eval();
        let (e, alt) = years_since_oracle(s, b);
        let g = got.map(|x| x as i64);
        if g != e && !(alt.is_some() && g == alt) {
            let kind = match (g, e) {
                (Some(_), None) => "some-for-base-after-self",
                (None, Some(_)) => "none-for-base-not-after-self",
                _ => "wrong-count",
            };
            loc.violation(&format!("C08/{}/{}", entry, kind), json!({"entry": entry, "self": [s.0, s.1, s.2, s.3, s.4], "base": [b.0, b.1, b.2, b.3, b.4], "expected": e, "also_accepted": alt, "observed": got}));
        }
    };
    // NaiveDate: times ignored
    let (sd, bd) = ((s.0, s.1, s.2, 0, 0), (b.0, b.1, b.2, 0, 0));
    let (Some(x), Some(y)) = (NaiveDate::from_ymd_opt(s.0 as i32, s.1 as u32, s.2 as u32), NaiveDate::from_ymd_opt(b.0 as i32, b.1 as u32, b.2 as u32)) else {
        loc.rep.harness_error(format!("cannot construct years_since inputs {:?} {:?}", s, b));
        return;
    };
    if let Some(g) = loc.call("NaiveDate::years_since", || json!({"self": [s.0, s.1, s.2], "base": [b.0, b.1, b.2]}), || x.years_since(y)) {
        cmp(loc, "NaiveDate::years_since", g, sd, bd);
    }
    let (e, alt) = years_since_oracle(sd, bd);
    match e {
        None => loc.bucket(Bk::ys_none_negative as usize),
        Some(k) => {
            if (s.1, s.2) == (b.1, b.2) {
                loc.bucket(if k == 0 { Bk::ys_same_day } else { Bk::ys_anniversary_exact } as usize);
            }
            if k > 100_000 {
                loc.bucket(Bk::ys_large as usize);
            }
            if alt.is_some() {
                loc.bucket(Bk::ys_feb29_ambiguous as usize);
            }
        }
    }
    if (b.1, b.2) == (2, 29) {
        loc.bucket(Bk::ys_feb29_base as usize);
    }
    // distance of self from the anniversary day of its own year (only when that day exists)
    if rc::valid_ymd(s.0, b.1, b.2) {
        let diff = rc::day_number(s.0, s.1, s.2) - rc::day_number(s.0, b.1, b.2);
        if diff == -1 {
            loc.bucket(Bk::ys_anniversary_day_before as usize);
        }
        if diff == 1 {
            loc.bucket(Bk::ys_anniversary_day_after as usize);
        }
        if diff.abs() <= 1 {
            loc.nontrivial(h2(40, h2(rc::day_number(s.0, s.1, s.2) as u64, rc::day_number(b.0, b.1, b.2) as u64)));
        }
    }
    if with_time {
        let (Some(x), Some(y)) = (mk_utc(s), mk_utc(b)) else {
            loc.rep.harness_error(format!("cannot construct DateTime<Utc> inputs {:?} {:?}", s, b));
            return;
        };
        if let Some(g) = loc.call("DateTime<Utc>::years_since", || json!({"self": [s.0, s.1, s.2, s.3, s.4], "base": [b.0, b.1, b.2, b.3, b.4]}), || x.years_since(y)) {
            cmp(loc, "DateTime<Utc>::years_since", g, s, b);
        }
        if (s.1, s.2) == (b.1, b.2) && (s.3, s.4) != (b.3, b.4) {
            loc.bucket(if s.0 == b.0 && (s.3, s.4) < (b.3, b.4) { Bk::ys_datetime_none_same_day } else { Bk::ys_datetime_time_decides } as usize);
            loc.nontrivial(h2(41, h2(h2(s.0 as u64, b.0 as u64), h2((s.3 * 2_000_000_000 + s.4) as u64, (b.3 * 2_000_000_000 + b.4) as u64))));
        }
    }
}

fn years_since_phase(ctx: &Ctx, rep: &Report) {
    let total = ctx.n(1_000_000, 40_000_000);
    let n_shards = 64usize;
    let years = year_pool();
    let cat = gen::catalogue_days();
    par_shards(rep, ctx.threads, n_shards, |shard| {
        let mut rng = Rng::new(ctx.seed, "C08/years_since", shard as u64);
        let mut loc = rep.local();
        for i in 0..total / n_shards as u64 {
            let (by, bm, bd) = if i % 16 == 0 { (*rng.pick(&[-400i64, 0, 4, 1600, 2000, 2020, 2024, rc::MIN_YEAR + 3, rc::MAX_YEAR - 2]), 2, 29) } else { pick_ymd(&mut rng, &years, &cat) };
            let leap_t = |rng: &mut Rng| -> (i64, i64) {
                if rng.chance(1, 10) {
                    (rng.range(0, 1439) * 60 + 59, 1_000_000_000 + rng.range(0, 999_999_999))
                } else {
                    (gen::random_secs(rng), gen::random_frac(rng))
                }
            };
            let (bs, bf) = leap_t(&mut rng);
            let b: Full = (by, bm, bd, bs, bf);
            // target year: base year + k
            let k = match rng.below(10) {
                0 => 0,
                1 => 1,
                2 => -1,
                3 => rng.range(-3, 120),
                4 => rc::MAX_YEAR - by,
                5 => rc::MIN_YEAR - by,
                6 => rng.range(rc::MIN_YEAR, rc::MAX_YEAR) - by,
                _ => rng.range(0, 400),
            };
            let sy = (by + k).clamp(rc::MIN_YEAR, rc::MAX_YEAR);
            // day: the anniversary, its neighbours, or anything
            let anniv_exists = rc::valid_ymd(sy, bm, bd);
            let (sm, sd) = match rng.below(8) {
                0..=4 if anniv_exists || (bm, bd) == (2, 29) => {
                    let base_n = if anniv_exists { rc::day_number(sy, bm, bd) } else { rc::day_number(sy, 2, 28) };
                    let n = (base_n + *rng.pick(&[-1i64, 0, 0, 0, 1, if anniv_exists { 0 } else { 1 }])).clamp(rc::min_day(), rc::max_day());
                    let c = rc::civil_from_days(n);
                    if c.0 == sy { (c.1, c.2) } else { (bm.min(12), bd.min(rc::days_in_month(sy, bm))) }
                }
                _ => {
                    let c = pick_ymd(&mut rng, &years, &cat);
                    (c.1, c.2.min(rc::days_in_month(sy, c.1)))
                }
            };
            let (ss, sf) = match rng.below(6) {
                0 | 1 => (bs, bf),
                2 => if bf % 1_000_000_000 > 0 { (bs, bf - 1) } else { (bs, bf + 1) },
                3 => if bf % 1_000_000_000 < 999_999_999 { (bs, bf + 1) } else { (bs, bf - 1) },
                _ => leap_t(&mut rng),
            };
            let s: Full = (sy, sm, sd, ss, sf);
            check_years_since(&mut loc, s, b, true);
            if i % 4 == 0 {
                check_years_since(&mut loc, b, s, true);
            }
            if i == 0 {
                loc.sample(|| sample_guard(|| json!({"op": "years_since", "self": [s.0, s.1, s.2], "base": [b.0, b.1, b.2], "expected": years_since_oracle((s.0, s.1, s.2, 0, 0), (b.0, b.1, b.2, 0, 0)).0})));
            }
        }
    });
}

// ------------------------------------------------------------------------------------------------
// quarter, year_ce, num_days_in_month, Month::num_days
// ------------------------------------------------------------------------------------------------

fn misc_phase(ctx: &Ctx, rep: &Report) {
    // all years of the range in thorough, a stride + pool in quick; plus years outside the range
    let mut yrs: Vec<i64> = year_pool();
    let stride: i64 = ctx.tier.pick(13, 1);
    let mut y = rc::MIN_YEAR;
    while y <= rc::MAX_YEAR {
        yrs.push(y);
        y += stride;
    }
    for k in 1..=5 {
        yrs.push(rc::MIN_YEAR - k);
        yrs.push(rc::MAX_YEAR + k);
        yrs.push(i32::MIN as i64 + k - 1);
        yrs.push(i32::MAX as i64 - k + 1);
    }
    yrs.extend([-1_000_000i64, 1_000_000, 1 << 30, -(1 << 30), 2_000_000_000, -2_000_000_000, 400 * 5_000_000, 1_999_999_900, 300_000, 300_004, -300_000, -299_996]);
    yrs.sort();
    yrs.dedup();
    let n_shards = 128usize;
    let t = time_pool()[3];
    par_shards(rep, ctx.threads, n_shards, |shard| {
        let mut loc = rep.local();
        for (i, &y) in yrs.iter().enumerate() {
            if i % n_shards != shard {
                continue;
            }
            let inr = in_range_year(y);
            for m in 1..=12i64 {
                let dim = rc::days_in_month(y, m);
                // Month::num_days(year)
                let mon = Month::try_from(m as u8).expect("month 1..=12");
                loc.eval();
                if let Some(g) = loc.call("Month::num_days", || json!({"month": m, "year": y}), || mon.num_days(y as i32)) {
                    let ok = if inr { g.map(|v| v as i64) == Some(dim) } else { g.is_none() || g.map(|v| v as i64) == Some(dim) };
                    if !ok {
                        loc.violation(
                            if inr { "C08/Month::num_days/wrong-length-for-year-in-range" } else { "C08/Month::num_days/wrong-length-for-year-out-of-range" },
                            json!({"month": m, "year": y, "expected": dim, "observed": g}),
                        );
                    }
                }
                loc.bucket(if inr { Bk::month_num_days_in_range } else { Bk::month_num_days_out_of_range_year } as usize);
                if !inr {
                    loc.nontrivial(h2(50, h2(y as u64, m as u64)));
                    continue;
                }
                // Datelike::num_days_in_month / quarter / year_ce through the three carriers
                for d in [1, dim, (y.rem_euclid(27)) + 1] {
                    let Some(date) = NaiveDate::from_ymd_opt(y as i32, m as u32, d as u32) else {
                        rep.harness_error(format!("cannot construct {:?}", (y, m, d)));
                        continue;
                    };
                    let ndt = NaiveDateTime::new(date, t);
                    let udt = Utc.from_utc_datetime(&ndt);
                    let q = (m + 2) / 3;
                    let yce = if y >= 1 { (true, y as u32) } else { (false, (1 - y) as u32) };
                    let inp = || json!({"date": [y, m, d]});
                    macro_rules! via {
                        ($name:literal, $v:expr) => {
                            if let Some((nd, qq, yc)) = loc.call(concat!($name, "::{num_days_in_month,quarter,year_ce}"), &inp, || ($v.num_days_in_month(), $v.quarter(), $v.year_ce())) {
                                loc.evals(3);
                                if nd as i64 != dim {
                                    loc.violation(concat!("C08/", $name, "::num_days_in_month/wrong-length"), json!({"input": inp(), "expected": dim, "observed": nd}));
                                }
                                if qq as i64 != q {
                                    loc.violation(concat!("C08/", $name, "::quarter/wrong-quarter"), json!({"input": inp(), "expected": q, "observed": qq}));
                                }
                                if yc != yce {
                                    loc.violation(concat!("C08/", $name, "::year_ce/wrong-era-year"), json!({"input": inp(), "expected": [yce.0 as u32, yce.1], "observed": [yc.0 as u32, yc.1]}));
                                }
                            }
                        };
                    }
                    via!("NaiveDate", date);
                    via!("NaiveDateTime", ndt);
                    via!("DateTime<Utc>", udt);
                    loc.bucket(Bk::quarter_checked as usize);
                    loc.bucket(if y >= 1 { Bk::year_ce_ce } else { Bk::year_ce_bce } as usize);
                }
                let b = match dim {
                    29 => Bk::ndim_feb_leap,
                    28 => Bk::ndim_feb_common,
                    30 => Bk::ndim_30,
                    _ => Bk::ndim_31,
                };
                loc.bucket(b as usize);
                if m == 2 {
                    if y.rem_euclid(400) == 0 {
                        loc.bucket(Bk::ndim_400_leap as usize);
                    } else if y.rem_euclid(100) == 0 {
                        loc.bucket(Bk::ndim_century_common as usize);
                    }
                    loc.nontrivial(h2(51, y as u64));
                }
            }
        }
        if shard == 0 {
            // zone-aware values whose wall-clock date is the one day beyond either range end
            // (262143-01-01 / -262144-12-31): the calendar helpers read that wall date
            for (hi, off) in [(true, 1i32), (true, 3600), (true, 86_399), (false, -1), (false, -3600), (false, -86_399)] {
                let fo = chrono::FixedOffset::east_opt(off).expect("offset");
                let v = if hi { DateTime::<Utc>::MAX_UTC.with_timezone(&fo) } else { DateTime::<Utc>::MIN_UTC.with_timezone(&fo) };
                let (ey, em, edim, eq) = if hi { (rc::MAX_YEAR + 1, 1u32, 31u32, 1u32) } else { (rc::MIN_YEAR - 1, 12, 31, 4) };
                let eyce = if ey >= 1 { (true, ey as u32) } else { (false, (1 - ey) as u32) };
                let inp = || json!({"value": if hi { "MAX_UTC" } else { "MIN_UTC" }, "offset_secs": off});
                if let Some((yy, mm, nd, qq, yc)) = loc.call("DateTime<FixedOffset>::{num_days_in_month,quarter,year_ce}", &inp, || (v.year(), v.month(), v.num_days_in_month(), v.quarter(), v.year_ce())) {
                    loc.evals(3);
                    loc.bucket(Bk::misc_wall_date_in_headroom as usize);
                    if (yy as i64, mm) != (ey, em) {
                        rep.harness_error(format!("headroom carrier is not in the headroom: {:?}", (yy, mm)));
                    }
                    if nd as u32 != edim || qq != eq || yc != eyce {
                        loc.violation("C08/DateTime<FixedOffset>::{num_days_in_month,quarter,year_ce}/wrong-for-wall-date-beyond-range-end", json!({"input": inp(), "expected": [edim, eq, eyce.1], "observed": [nd as u32, qq, yc.1]}));
                    }
                    loc.nontrivial(h2(52, off as u64));
                }
            }
            loc.sample(|| sample_guard(|| json!({"op": "Month::February.num_days(1900)", "expected": 28, "chrono": Month::February.num_days(1900)})));
        }
    });
}
