//! C15 — fallible operations fail by value, not by panic or hang.
//! Monitors: panic monitor (incl. overflow / debug_assert panics in the `checked` lane) around a
//! table of public fallible entry points driven with extreme arguments; validity monitor on every
//! returned value; step monitor for `StrftimeItems`; hang watchdog (a single call that does not
//! return within 15 s of its own thread CPU time is reported with its input and the process exits 1).

use crate::gen;
use crate::mon::{guard, h2, hstr, par_shards, Ctx, Local, Outcome, Report};
use crate::refcal as rc;
use crate::rng::Rng;
use chrono::format::{Item, Parsed, StrftimeItems};
use chrono::{
    DateTime, Datelike, Days, DurationRound, FixedOffset, MappedLocalTime, Month, Months, NaiveDate, NaiveDateTime, NaiveTime, SecondsFormat, SubsecRound, TimeDelta,
    TimeZone, Timelike, Utc, Weekday,
};
use serde_json::json;
use std::fmt::Write as _;
use std::sync::atomic::{AtomicU64, Ordering};
use std::sync::Mutex;

const B: &[&str] = &[
    "constructor_cross_product", "entry_point_table", "receiver_range_end", "receiver_leap_second", "receiver_headroom_offset", "arg_integer_extreme",
    "format_strings", "format_two_three_byte_specifiers", "format_truncated_specifier", "format_multibyte", "format_long", "items_step_monitor",
    "items_error_item_seen", "parse_strings", "parse_with_format", "parsed_setters", "rfc3339_renderers", "rounding", "serde_deserialize_text",
    "returned_value_validated", "returned_none_or_err", "documented_panic_site_counted",
];
const FLOOR: &[&str] = &[
    "constructor_cross_product", "entry_point_table", "receiver_range_end", "receiver_leap_second", "receiver_headroom_offset", "arg_integer_extreme",
    "format_strings", "format_two_three_byte_specifiers", "format_truncated_specifier", "format_multibyte", "format_long", "items_step_monitor",
    "items_error_item_seen", "parse_strings", "parse_with_format", "parsed_setters", "rfc3339_renderers", "rounding", "serde_deserialize_text",
    "returned_value_validated", "returned_none_or_err",
];

fn bi(n: &str) -> usize {
    B.iter().position(|x| *x == n).unwrap()
}

// ------------------------------------------------------------------------------------------------
// hang watchdog
// ------------------------------------------------------------------------------------------------

struct Slot {
    started_ms: AtomicU64,
    /// kernel thread id of the worker that owns the slot (0 if /proc is not available)
    tid: AtomicU64,
    what: Mutex<String>,
}

static SLOTS: Mutex<Vec<&'static Slot>> = Mutex::new(Vec::new());

fn now_ms() -> u64 {
    std::time::SystemTime::now().duration_since(std::time::UNIX_EPOCH).map(|d| d.as_millis() as u64).unwrap_or(0)
}

/// Called by the worker thread that will use the slot.
fn new_slot() -> &'static Slot {
    let tid = std::fs::read_link("/proc/thread-self").ok().and_then(|p| p.file_name().and_then(|f| f.to_str().and_then(|t| t.parse::<u64>().ok()))).unwrap_or(0);
    let s: &'static Slot = Box::leak(Box::new(Slot { started_ms: AtomicU64::new(0), tid: AtomicU64::new(tid), what: Mutex::new(String::new()) }));
    SLOTS.lock().unwrap().push(s);
    s
}

/// CPU time (user + system) consumed so far by one thread of this process, in milliseconds.
fn thread_cpu_ms(tid: u64) -> Option<u64> {
    let stat = std::fs::read_to_string(format!("/proc/self/task/{}/stat", tid)).ok()?;
    // fields after the parenthesised command name: state is field 3, utime 14, stime 15
    let rest = &stat[stat.rfind(')')? + 1..];
    let f: Vec<&str> = rest.split_whitespace().collect();
    let (ut, st) = (f.get(11)?.parse::<u64>().ok()?, f.get(12)?.parse::<u64>().ok()?);
    Some((ut + st) * 10) // USER_HZ = 100
}

/// A call is a hang when it has burnt 15 s of CPU time of its own thread without returning: the
/// verdict is taken on the thread's CPU clock, not on wall time, so a loaded or suspended machine
/// cannot produce it. A call that is old on the wall clock but has not used CPU (starved, or /proc
/// unavailable) makes the run inconclusive after 10 minutes.
fn start_watchdog() {
    std::thread::spawn(|| {
        // per slot: (start stamp of the call being watched, thread CPU when first seen old)
        let mut seen: std::collections::HashMap<usize, (u64, Option<u64>)> = std::collections::HashMap::new();
        loop {
            std::thread::sleep(std::time::Duration::from_millis(500));
            let slots: Vec<&'static Slot> = SLOTS.lock().unwrap().clone();
            for (i, s) in slots.iter().enumerate() {
                let t = s.started_ms.load(Ordering::Relaxed);
                if t == 0 || now_ms().saturating_sub(t) < 3_000 {
                    seen.remove(&i);
                    continue;
                }
                let cpu = thread_cpu_ms(s.tid.load(Ordering::Relaxed));
                let e = seen.entry(i).or_insert((t, cpu));
                if e.0 != t {
                    *e = (t, cpu);
                    continue;
                }
                let burnt = match (e.1, cpu) {
                    (Some(a), Some(b)) => Some(b.saturating_sub(a)),
                    _ => None,
                };
                let what = s.what.lock().map(|w| w.clone()).unwrap_or_default();
                let entry = what.split('\u{1}').next().unwrap_or("?").to_string();
                if burnt.map_or(false, |b| b >= 15_000) {
                    let sig = format!("C15/{}/does-not-return-within-15s-of-cpu-time", entry);
                    let root = std::env::var("VERIF_ROOT").unwrap_or_else(|_| "/verif".into());
                    let dir = std::path::Path::new(&root).join("replays");
                    let _ = std::fs::create_dir_all(&dir);
                    let path = dir.join(format!("C15-{:016x}.json", hstr(&sig)));
                    let rec = json!({"property": "C15", "signature": sig, "lane": crate::mon::lane(), "witness": {"call": what.replace('\u{1}', " :: "), "thread_cpu_ms_in_this_call": burnt}});
                    let _ = std::fs::write(&path, serde_json::to_string_pretty(&rec).unwrap_or_default());
                    println!("VIOLATION property=C15 replay={}", path.display());
                    println!("  signature: {}", sig);
                    std::process::exit(1);
                }
                if now_ms().saturating_sub(t) > 600_000 {
                    println!("INCONCLUSIVE property=C15 reason=call-outstanding-for-10-minutes-without-using-cpu ({})", entry);
                    std::process::exit(2);
                }
            }
        }
    });
}

// ------------------------------------------------------------------------------------------------
// validity monitor
// ------------------------------------------------------------------------------------------------

trait Valid {
    /// Some(problem) if the value is not a valid value of its type
    fn problem(&self) -> Option<String>;
    fn is_failure(&self) -> bool {
        false
    }
}

impl Valid for NaiveDate {
    fn problem(&self) -> Option<String> {
        let n = self.num_days_from_ce() as i64;
        if !rc::in_range_day(n) {
            return Some(format!("date with day number {} outside the range", n));
        }
        let (y, m, d) = rc::civil_from_days(n);
        if (self.year() as i64, self.month() as i64, self.day() as i64) != (y, m, d) || self.ordinal() as i64 != rc::yo_from_days(n).1 || self.weekday().num_days_from_monday() as i64 != rc::weekday(n) {
            return Some(format!("inconsistent date: day number {} but fields {}-{}-{} ordinal {} {:?}", n, self.year(), self.month(), self.day(), self.ordinal(), self.weekday()));
        }
        if NaiveDate::from_num_days_from_ce_opt(n as i32) != Some(*self) {
            return Some("date differs from the date of its own day number".into());
        }
        None
    }
}
impl Valid for NaiveTime {
    fn problem(&self) -> Option<String> {
        let (s, f) = (self.num_seconds_from_midnight(), self.nanosecond());
        if s >= 86_400 || f >= 2_000_000_000 {
            return Some(format!("time with secs {} frac {}", s, f));
        }
        if (self.hour(), self.minute(), self.second()) != (s / 3600, s / 60 % 60, s % 60) {
            return Some("inconsistent time fields".into());
        }
        None
    }
}
impl Valid for NaiveDateTime {
    fn problem(&self) -> Option<String> {
        self.date().problem().or_else(|| self.time().problem())
    }
}
impl<Tz: TimeZone> Valid for DateTime<Tz> {
    fn problem(&self) -> Option<String> {
        if let Some(p) = self.naive_utc().problem() {
            return Some(format!("DateTime with invalid UTC value: {}", p));
        }
        let o = self.offset().fix().local_minus_utc();
        if o.abs() >= 86_400 {
            return Some(format!("offset {}", o));
        }
        None
    }
}
use chrono::Offset;
impl Valid for FixedOffset {
    fn problem(&self) -> Option<String> {
        if self.local_minus_utc().abs() >= 86_400 || self.local_minus_utc() != -self.utc_minus_local() {
            Some(format!("offset {}", self.local_minus_utc()))
        } else {
            None
        }
    }
}
impl Valid for TimeDelta {
    fn problem(&self) -> Option<String> {
        if *self < TimeDelta::MIN || *self > TimeDelta::MAX || !(0..1_000_000_000).contains(&self.subsec_nanos().rem_euclid(1_000_000_000)) {
            return Some(format!("duration outside the range: {:?}", self));
        }
        let ns = crate::refinst::td_ns(self);
        if !(crate::refinst::TD_MIN_NS..=crate::refinst::TD_MAX_NS).contains(&ns) {
            return Some(format!("duration of {} ns outside the range", ns));
        }
        None
    }
}
impl<T: Valid> Valid for Option<T> {
    fn problem(&self) -> Option<String> {
        self.as_ref().and_then(|v| v.problem())
    }
    fn is_failure(&self) -> bool {
        self.is_none()
    }
}
impl<T: Valid, E> Valid for Result<T, E> {
    fn problem(&self) -> Option<String> {
        self.as_ref().ok().and_then(|v| v.problem())
    }
    fn is_failure(&self) -> bool {
        self.is_err()
    }
}
impl<T: Valid> Valid for MappedLocalTime<T> {
    fn problem(&self) -> Option<String> {
        match self {
            MappedLocalTime::None => None,
            MappedLocalTime::Single(a) => a.problem(),
            MappedLocalTime::Ambiguous(a, b) => a.problem().or_else(|| b.problem()),
        }
    }
    fn is_failure(&self) -> bool {
        matches!(self, MappedLocalTime::None)
    }
}
macro_rules! trivially_valid {
    ($($t:ty),*) => { $(impl Valid for $t { fn problem(&self) -> Option<String> { None } })* };
}
trivially_valid!((), bool, u8, u32, i32, i64, u64, usize, String, Weekday, Month, std::time::Duration, chrono::IsoWeek);
impl<A: Valid, B: Valid> Valid for (A, B) {
    fn problem(&self) -> Option<String> {
        self.0.problem().or_else(|| self.1.problem())
    }
}
impl<T: Valid> Valid for Vec<T> {
    fn problem(&self) -> Option<String> {
        self.iter().find_map(|v| v.problem())
    }
}
impl<T: Valid> Valid for std::ops::RangeInclusive<T> {
    fn problem(&self) -> Option<String> {
        self.start().problem().or_else(|| self.end().problem())
    }
}

// ------------------------------------------------------------------------------------------------
// argument generator (records what it hands out, for the witness)
// ------------------------------------------------------------------------------------------------

struct Gen<'a> {
    rng: &'a mut Rng,
    log: Vec<String>,
    extreme: bool,
    range_end: bool,
    leap: bool,
    headroom: bool,
}

const I32X: [i64; 32] = [
    i32::MIN as i64, i32::MIN as i64 + 1, -262_145, -262_144, -262_143, -262_142, -86_401, -86_400, -86_399, -10_000, -9999, -401, -400, -100, -1, 0, 1, 4, 100, 400, 1970, 2000, 9999, 10_000,
    86_399, 86_400, 86_401, 262_141, 262_142, 262_143, i32::MAX as i64 - 1, i32::MAX as i64,
];
const U32X: [i64; 32] = [
    0, 1, 2, 6, 7, 11, 12, 13, 23, 24, 28, 29, 30, 31, 32, 52, 53, 54, 59, 60, 61, 365, 366, 367, 999, 1000, 86_399, 86_400, 999_999_999, 1_000_000_000, i32::MAX as i64, u32::MAX as i64,
];

impl Gen<'_> {
    fn rec<T: std::fmt::Debug>(&mut self, kind: &str, v: T) -> T {
        if self.log.len() < 24 {
            self.log.push(format!("{}={:?}", kind, v));
        }
        v
    }
    fn i32(&mut self) -> i32 {
        let v = match self.rng.below(4) {
            0..=1 => {
                self.extreme = true;
                *self.rng.pick(&I32X) as i32
            }
            2 => self.rng.range(-300_000, 300_000) as i32,
            _ => self.rng.next() as i32,
        };
        self.rec("i32", v)
    }
    fn u32(&mut self) -> u32 {
        let v = match self.rng.below(5) {
            0..=2 => {
                let x = *self.rng.pick(&U32X);
                if x >= i32::MAX as i64 {
                    self.extreme = true;
                }
                x as u32
            }
            3 => self.rng.below(70) as u32,
            _ => self.rng.next() as u32,
        };
        self.rec("u32", v)
    }
    fn u8(&mut self) -> u8 {
        let v = match self.rng.below(3) {
            0 => *self.rng.pick(&[0u8, 1, 6, 7, 12, 13, 127, 128, 255]),
            _ => self.rng.next() as u8,
        };
        self.rec("u8", v)
    }
    fn u16(&mut self) -> u16 {
        let v = match self.rng.below(3) {
            0 => *self.rng.pick(&[0u16, 1, 8, 9, 10, 255, 256, u16::MAX - 1, u16::MAX]),
            1 => self.rng.below(12) as u16,
            _ => self.rng.next() as u16,
        };
        self.rec("u16", v)
    }
    fn i64(&mut self) -> i64 {
        let cat = gen::catalogue_i64();
        let v = match self.rng.below(5) {
            0..=1 => {
                self.extreme = true;
                *self.rng.pick(&cat)
            }
            2 => {
                // range ends in seconds / millis / micros / nanos
                let base = *self.rng.pick(&[-8_334_601_228_800i64, 8_210_266_876_799, -8_334_601_228_800_000, 8_210_266_876_799_999, i64::MIN, i64::MAX]);
                base.saturating_add(self.rng.range(-2, 2))
            }
            3 => {
                if self.rng.chance(1, 2) {
                    self.rng.log_i64(63)
                } else {
                    // a count of seconds / minutes / ... / microseconds whose whole-day (or whole-unit)
                    // part sits at a 32-bit narrowing boundary, up to the epoch shift away from it
                    self.extreme = true;
                    let edge = *self.rng.pick(&[i32::MAX as i64, i32::MIN as i64, u32::MAX as i64 + 1, -(u32::MAX as i64) - 1, 1i64 << 33]);
                    let near = match self.rng.below(3) {
                        0 => self.rng.range(-3, 3),
                        1 => self.rng.range(-720_000, 720_000),
                        _ => self.rng.range(-800_000_000, 800_000_000),
                    };
                    let unit = *self.rng.pick(&[1i64, 60, 3600, 86_400, 604_800, 86_400_000, 86_400_000_000]);
                    (edge + near).checked_mul(unit).map(|x| x.saturating_add(self.rng.range(0, unit - 1))).unwrap_or(i64::MAX)
                }
            }
            _ => self.rng.next() as i64,
        };
        self.rec("i64", v)
    }
    fn u64(&mut self) -> u64 {
        let v = match self.rng.below(4) {
            0 => *self.rng.pick(&[0u64, 1, 7, 365, 366, i32::MAX as u64, i32::MAX as u64 + 1, u32::MAX as u64, u32::MAX as u64 + 1, i64::MAX as u64, i64::MAX as u64 + 1, u64::MAX - 1, u64::MAX]),
            1 => self.rng.below(100_000),
            2 => self.rng.log_u64(64),
            _ => self.rng.next(),
        };
        self.rec("u64", v)
    }
    fn weekday(&mut self) -> Weekday {
        let v = crate::props::c01::wd_of(self.rng.range(0, 6));
        self.rec("weekday", v)
    }
    fn date(&mut self) -> NaiveDate {
        let v = match self.rng.below(8) {
            0 => {
                self.range_end = true;
                NaiveDate::MIN
            }
            1 => {
                self.range_end = true;
                NaiveDate::MAX
            }
            2 => {
                self.range_end = true;
                NaiveDate::from_num_days_from_ce_opt((if self.rng.chance(1, 2) { rc::min_day() + self.rng.range(0, 400) } else { rc::max_day() - self.rng.range(0, 400) }) as i32).unwrap()
            }
            3 => NaiveDate::from_ymd_opt(*self.rng.pick(&[-4, 0, 1, 4, 1970, 2000, 2024, 9999, 10_000]), *self.rng.pick(&[1, 2, 2, 12]), *self.rng.pick(&[1, 28, 29])).unwrap_or(NaiveDate::MIN),
            _ => NaiveDate::from_num_days_from_ce_opt(self.rng.range(rc::min_day(), rc::max_day()) as i32).unwrap(),
        };
        self.rec("date", v)
    }
    fn time(&mut self) -> NaiveTime {
        let v = match self.rng.below(6) {
            0 => NaiveTime::MIN,
            1 => NaiveTime::from_hms_nano_opt(23, 59, 59, 999_999_999).unwrap(),
            2 => {
                self.leap = true;
                NaiveTime::from_hms_nano_opt(23, 59, 59, 1_000_000_000 + self.rng.below(1_000_000_000) as u32).unwrap()
            }
            3 => {
                self.leap = true;
                NaiveTime::from_hms_nano_opt(self.rng.below(24) as u32, self.rng.below(60) as u32, 59, 1_999_999_999).unwrap()
            }
            _ => NaiveTime::from_num_seconds_from_midnight_opt(self.rng.below(86_400) as u32, gen::random_frac(self.rng) as u32).unwrap(),
        };
        self.rec("time", v)
    }
    fn ndt(&mut self) -> NaiveDateTime {
        let (d, t) = (self.date(), self.time());
        NaiveDateTime::new(d, t)
    }
    fn offset(&mut self) -> FixedOffset {
        let s = match self.rng.below(5) {
            0 => 86_399,
            1 => -86_399,
            2 => 0,
            3 => self.rng.range(-1439, 1439) as i32 * 60,
            _ => self.rng.range(-86_399, 86_399) as i32,
        };
        self.rec("offset", FixedOffset::east_opt(s).unwrap())
    }
    fn dtf(&mut self) -> DateTime<FixedOffset> {
        let n = self.ndt();
        let o = self.offset();
        let wall = n.and_utc().timestamp() + o.local_minus_utc() as i64;
        if wall < crate::props::c05::min_secs() || wall > crate::props::c05::max_secs() {
            self.headroom = true;
        }
        o.from_utc_datetime(&n)
    }
    fn dtu(&mut self) -> DateTime<Utc> {
        self.ndt().and_utc()
    }
    fn delta(&mut self) -> TimeDelta {
        let v = match self.rng.below(9) {
            0 => TimeDelta::MIN,
            1 => TimeDelta::MAX,
            2 => TimeDelta::zero(),
            3 => TimeDelta::nanoseconds(*self.rng.pick(&[1i64, -1, 999_999_999, -999_999_999, i64::MAX, i64::MIN])),
            4 => TimeDelta::new(*self.rng.pick(&[86_400i64, -86_400, 86_399, 1, -1]), self.rng.below(1_000_000_000) as u32).unwrap(),
            5 => crate::refinst::td_from_ns(self.rng.range128(crate::refinst::TD_MIN_NS, crate::refinst::TD_MAX_NS)).unwrap(),
            6 => {
                // whole-day count at a 32-bit narrowing boundary (or a multiple of 2^32 plus a little)
                self.extreme = true;
                let edge = *self.rng.pick(&[i32::MAX as i64, i32::MIN as i64, u32::MAX as i64 + 1, -(u32::MAX as i64) - 1, 1i64 << 33, -(1i64 << 33)]);
                let days = edge + if self.rng.chance(1, 2) { self.rng.range(-2, 2) } else { self.rng.range(-800_000, 800_000) };
                let secs = days * 86_400 + if self.rng.chance(1, 2) { 0 } else { self.rng.range(-86_399, 86_399) };
                TimeDelta::try_seconds(secs).unwrap_or(TimeDelta::MAX)
            }
            _ => TimeDelta::nanoseconds(self.rng.log_i64(63)),
        };
        self.rec("delta", v)
    }
    fn secform(&mut self) -> SecondsFormat {
        let v = *self.rng.pick(&[SecondsFormat::Secs, SecondsFormat::Millis, SecondsFormat::Micros, SecondsFormat::Nanos, SecondsFormat::AutoSi]);
        self.rec("secform", v)
    }
    fn flag(&mut self) -> bool {
        let v = self.rng.chance(1, 2);
        self.rec("bool", v)
    }
    fn text(&mut self) -> String {
        let v = random_text(self.rng);
        self.rec("text", v)
    }
    fn fmt(&mut self) -> String {
        let v = random_format(self.rng);
        self.rec("format", v)
    }
}

const SPEC_CHARS: &[u8] = b"aAbBcCdDeFfgGhHIjklMmnPpRrSsTtUuVvWwXxYyZz+%-_0.:#369";

fn random_format(rng: &mut Rng) -> String {
    let mut s = String::new();
    let n = match rng.below(10) {
        0 => 0,
        1..=6 => 1 + rng.below(6),
        7..=8 => rng.below(40),
        _ => rng.below(1500),
    };
    for _ in 0..n {
        match rng.below(12) {
            0..=5 => {
                s.push('%');
                for _ in 0..rng.below(4) {
                    if rng.chance(1, 2) {
                        s.push(*rng.pick(b"-_0.:#369") as char);
                    }
                }
                if rng.chance(9, 10) {
                    s.push(*rng.pick(SPEC_CHARS) as char);
                }
            }
            6 => s.push_str(*rng.pick(&[" ", "  ", "\t", "\n", "-", "/", ":", "T", ".", ","])),
            7 => s.push(*rng.pick(&['é', 'ß', '日', '本', '\u{2212}', '\u{1F600}', '\u{a0}', '\u{301}'])),
            8 => s.push_str(*rng.pick(&["%", "%-", "%:", "%::", "%:::", "%.", "%.3", "%.6", "%.9", "%#", "%3", "%_", "%0", "%%%", "%é", "%\u{1F600}"])),
            9 => s.push((0x20 + rng.below(0x5f) as u8) as char),
            _ => s.push_str(&gen::random_unicode(rng, 4)),
        }
    }
    s
}

fn random_text(rng: &mut Rng) -> String {
    const SEEDS: &[&str] = &[
        "2015-09-05", "23:56:04", "2015-09-05T23:56:04", "2015-09-05 23:56:04 UTC", "2015-09-05T23:56:04+09:30", "Tue, 1 Jul 2003 10:52:37 +0200", "1996-12-19T16:39:57-08:00", "+262142-12-31T23:59:60.999999999",
        "-262143-01-01", "Sat", "Saturday", "September", "Sep", "+09:30", "-00:00", "12:34:56.123456789", "2015-W36-6", "P1DT2H", "1441497364", "99999999999999999999", "0000-00-00", "9999-99-99T99:99:99Z", "2015-02-29", "24:00:00", "23:59:60",
        // the alphabetic parts of the readers: zone names, military letters, comments, month and day names, am/pm
        "Tue, 1 Jul 2003 10:52:37 GMT", "1 Jul 03 10:52 EST", "Fri, 21 Nov 1997 09:55:06 PDT (Pacific (daylight) time)", "21 Nov 97 09:55 z", "Thursday, 9 January 2020 03:04:05 PM UTC", "9 jan 2020 3:04 am",
        "2015-09-05T23:56:04Z", "2015-09-05t23:56:04z", "20150905T235604", "Sat Sep  5 23:56:04 2015",
    ];
    match rng.below(8) {
        0..=3 => {
            let mut b: Vec<char> = rng.pick(SEEDS).chars().collect();
            for _ in 0..rng.below(4) {
                if b.is_empty() {
                    break;
                }
                let p = rng.below(b.len() as u64) as usize;
                match rng.below(6) {
                    0 => {
                        b.remove(p);
                    }
                    1 => b.insert(p, *rng.pick(&['0', '9', '-', '+', ':', '.', ' ', 'T', 'Z', '\u{2212}', '\u{ff11}', 'é', 'ß', 'Ω', '日', '\u{130}', '\u{1F600}', '\u{3000}', 'a', '(', ')', '\\'])),
                    2 => b[p] = if rng.chance(1, 3) { *rng.pick(&gen::lead_byte_chars()) } else { *rng.pick(&['0', '1', '9', '-', '+', ':', ' ', 'x', '\u{0661}', '\0']) },
                    3 => {
                        if rng.chance(1, 2) {
                            b.truncate(p)
                        } else {
                            // append: a letter (ASCII or not) right after the last field
                            b.push(*rng.pick(&['é', 'ß', '東', 'x', 'Z', '\u{130}', '\u{2212}', '9']));
                        }
                    }
                    4 => {
                        let c = b[p];
                        b.insert(p, c);
                    }
                    _ => b.swap(p, 0),
                }
            }
            b.into_iter().collect()
        }
        4 => rng.pick(SEEDS).to_string(),
        5 => {
            let mut s = String::new();
            for _ in 0..rng.below(3000) {
                s.push(*rng.pick(&['9', '0', '1', ' ', '-', ':']));
            }
            s
        }
        _ => gen::random_unicode(rng, 40),
    }
}

// ------------------------------------------------------------------------------------------------
// the entry-point table
// ------------------------------------------------------------------------------------------------

type Entry = (&'static str, Box<dyn Fn(&mut Gen) -> (Option<String>, bool) + Sync + Send>);

macro_rules! e {
    ($v:ident, $name:expr, |$g:ident| $body:expr) => {
        $v.push((
            $name,
            Box::new(|$g: &mut Gen| {
                let r = $body;
                (r.problem(), r.is_failure())
            }),
        ));
    };
}

fn write_fmt_result<T: std::fmt::Display>(v: T) -> Result<String, std::fmt::Error> {
    let mut s = String::new();
    write!(s, "{}", v)?;
    Ok(s)
}

fn month_of(g: &mut Gen) -> Month {
    Month::try_from(1 + (g.u8() % 12)).unwrap()
}

fn table() -> Vec<Entry> {
    let mut v: Vec<Entry> = Vec::new();
    // --- constructors
    e!(v, "NaiveDate::from_ymd_opt", |g| NaiveDate::from_ymd_opt(g.i32(), g.u32(), g.u32()));
    e!(v, "NaiveDate::from_yo_opt", |g| NaiveDate::from_yo_opt(g.i32(), g.u32()));
    e!(v, "NaiveDate::from_isoywd_opt", |g| NaiveDate::from_isoywd_opt(g.i32(), g.u32(), g.weekday()));
    e!(v, "NaiveDate::from_num_days_from_ce_opt", |g| NaiveDate::from_num_days_from_ce_opt(g.i32()));
    e!(v, "NaiveDate::from_weekday_of_month_opt", |g| NaiveDate::from_weekday_of_month_opt(g.i32(), g.u32(), g.weekday(), g.u8()));
    e!(v, "NaiveTime::from_hms_opt", |g| NaiveTime::from_hms_opt(g.u32(), g.u32(), g.u32()));
    e!(v, "NaiveTime::from_hms_milli_opt", |g| NaiveTime::from_hms_milli_opt(g.u32(), g.u32(), g.u32(), g.u32()));
    e!(v, "NaiveTime::from_hms_micro_opt", |g| NaiveTime::from_hms_micro_opt(g.u32(), g.u32(), g.u32(), g.u32()));
    e!(v, "NaiveTime::from_hms_nano_opt", |g| NaiveTime::from_hms_nano_opt(g.u32(), g.u32(), g.u32(), g.u32()));
    e!(v, "NaiveTime::from_num_seconds_from_midnight_opt", |g| NaiveTime::from_num_seconds_from_midnight_opt(g.u32(), g.u32()));
    e!(v, "NaiveDate::and_hms_opt", |g| g.date().and_hms_opt(g.u32(), g.u32(), g.u32()));
    e!(v, "NaiveDate::and_hms_milli_opt", |g| g.date().and_hms_milli_opt(g.u32(), g.u32(), g.u32(), g.u32()));
    e!(v, "NaiveDate::and_hms_micro_opt", |g| g.date().and_hms_micro_opt(g.u32(), g.u32(), g.u32(), g.u32()));
    e!(v, "NaiveDate::and_hms_nano_opt", |g| g.date().and_hms_nano_opt(g.u32(), g.u32(), g.u32(), g.u32()));
    e!(v, "FixedOffset::east_opt", |g| FixedOffset::east_opt(g.i32()));
    e!(v, "FixedOffset::west_opt", |g| FixedOffset::west_opt(g.i32()));
    e!(v, "DateTime::from_timestamp", |g| DateTime::from_timestamp(g.i64(), g.u32()));
    e!(v, "DateTime::from_timestamp_millis", |g| DateTime::from_timestamp_millis(g.i64()));
    e!(v, "DateTime::from_timestamp_micros", |g| DateTime::from_timestamp_micros(g.i64()));
    e!(v, "DateTime::from_timestamp_nanos", |g| DateTime::from_timestamp_nanos(g.i64()));
    e!(v, "Utc.timestamp_opt", |g| Utc.timestamp_opt(g.i64(), g.u32()));
    e!(v, "Utc.timestamp_millis_opt", |g| Utc.timestamp_millis_opt(g.i64()));
    e!(v, "Utc.timestamp_micros", |g| Utc.timestamp_micros(g.i64()));
    e!(v, "FixedOffset.timestamp_opt", |g| g.offset().timestamp_opt(g.i64(), g.u32()));
    e!(v, "FixedOffset.timestamp_millis_opt", |g| g.offset().timestamp_millis_opt(g.i64()));
    e!(v, "FixedOffset.timestamp_micros", |g| g.offset().timestamp_micros(g.i64()));
    e!(v, "FixedOffset.timestamp_nanos", |g| g.offset().timestamp_nanos(g.i64()));
    e!(v, "Utc.with_ymd_and_hms", |g| Utc.with_ymd_and_hms(g.i32(), g.u32(), g.u32(), g.u32(), g.u32(), g.u32()));
    e!(v, "FixedOffset.with_ymd_and_hms", |g| g.offset().with_ymd_and_hms(g.i32(), g.u32(), g.u32(), g.u32(), g.u32(), g.u32()));
    e!(v, "FixedOffset.from_local_datetime", |g| g.offset().from_local_datetime(&g.ndt()));
    e!(v, "NaiveDateTime::and_local_timezone", |g| g.ndt().and_local_timezone(g.offset()));
    e!(v, "TimeDelta::new", |g| TimeDelta::new(g.i64(), g.u32()));
    e!(v, "TimeDelta::try_weeks", |g| TimeDelta::try_weeks(g.i64()));
    e!(v, "TimeDelta::try_days", |g| TimeDelta::try_days(g.i64()));
    e!(v, "TimeDelta::try_hours", |g| TimeDelta::try_hours(g.i64()));
    e!(v, "TimeDelta::try_minutes", |g| TimeDelta::try_minutes(g.i64()));
    e!(v, "TimeDelta::try_seconds", |g| TimeDelta::try_seconds(g.i64()));
    e!(v, "TimeDelta::try_milliseconds", |g| TimeDelta::try_milliseconds(g.i64()));
    e!(v, "TimeDelta::microseconds", |g| TimeDelta::microseconds(g.i64()));
    e!(v, "TimeDelta::nanoseconds", |g| TimeDelta::nanoseconds(g.i64()));
    e!(v, "TimeDelta::from_std", |g| TimeDelta::from_std(std::time::Duration::new(g.u64(), g.u32() % 1_000_000_000)));
    e!(v, "Month::try_from<u8>", |g| Month::try_from(g.u8()));
    e!(v, "Weekday::try_from<u8>", |g| Weekday::try_from(g.u8()));
    e!(v, "Month::num_days", |g| month_of(g).num_days(g.i32()));
    // --- NaiveDate receivers
    e!(v, "NaiveDate::with_year", |g| g.date().with_year(g.i32()));
    e!(v, "NaiveDate::with_month", |g| g.date().with_month(g.u32()));
    e!(v, "NaiveDate::with_month0", |g| g.date().with_month0(g.u32()));
    e!(v, "NaiveDate::with_day", |g| g.date().with_day(g.u32()));
    e!(v, "NaiveDate::with_day0", |g| g.date().with_day0(g.u32()));
    e!(v, "NaiveDate::with_ordinal", |g| g.date().with_ordinal(g.u32()));
    e!(v, "NaiveDate::with_ordinal0", |g| g.date().with_ordinal0(g.u32()));
    e!(v, "NaiveDate::checked_add_days", |g| g.date().checked_add_days(Days::new(g.u64())));
    e!(v, "NaiveDate::checked_sub_days", |g| g.date().checked_sub_days(Days::new(g.u64())));
    e!(v, "NaiveDate::checked_add_months", |g| g.date().checked_add_months(Months::new(g.u32())));
    e!(v, "NaiveDate::checked_sub_months", |g| g.date().checked_sub_months(Months::new(g.u32())));
    e!(v, "NaiveDate::checked_add_signed", |g| g.date().checked_add_signed(g.delta()));
    e!(v, "NaiveDate::checked_sub_signed", |g| g.date().checked_sub_signed(g.delta()));
    e!(v, "NaiveDate::succ_opt", |g| g.date().succ_opt());
    e!(v, "NaiveDate::pred_opt", |g| g.date().pred_opt());
    e!(v, "NaiveDate::years_since", |g| g.date().years_since(g.date()));
    e!(v, "NaiveDate::signed_duration_since", |g| g.date().signed_duration_since(g.date()));
    e!(v, "NaiveWeek::checked_first_day", |g| g.date().week(g.weekday()).checked_first_day());
    e!(v, "NaiveWeek::checked_last_day", |g| g.date().week(g.weekday()).checked_last_day());
    e!(v, "NaiveWeek::checked_days", |g| g.date().week(g.weekday()).checked_days());
    e!(v, "NaiveWeek::eq", |g| g.date().week(g.weekday()) == g.date().week(g.weekday()));
    e!(v, "NaiveWeek::hash", |g| {
        use std::hash::{Hash, Hasher};
        let mut h = std::collections::hash_map::DefaultHasher::new();
        g.date().week(g.weekday()).hash(&mut h);
        h.finish()
    });
    e!(v, "NaiveDate::iter_days.take", |g| g.date().iter_days().take(3).collect::<Vec<_>>());
    e!(v, "NaiveDate::iter_weeks.rev.take", |g| g.date().iter_weeks().rev().take(3).collect::<Vec<_>>());
    // --- NaiveTime / NaiveDateTime receivers
    e!(v, "NaiveTime::with_hour", |g| g.time().with_hour(g.u32()));
    e!(v, "NaiveTime::with_minute", |g| g.time().with_minute(g.u32()));
    e!(v, "NaiveTime::with_second", |g| g.time().with_second(g.u32()));
    e!(v, "NaiveTime::with_nanosecond", |g| g.time().with_nanosecond(g.u32()));
    e!(v, "NaiveTime::overflowing_add_signed", |g| g.time().overflowing_add_signed(g.delta()));
    e!(v, "NaiveTime::overflowing_sub_signed", |g| g.time().overflowing_sub_signed(g.delta()));
    e!(v, "NaiveTime::signed_duration_since", |g| g.time().signed_duration_since(g.time()));
    e!(v, "NaiveTime + std::Duration", |g| g.time() + std::time::Duration::new(g.u64(), g.u32() % 1_000_000_000));
    e!(v, "NaiveDateTime::with_year", |g| g.ndt().with_year(g.i32()));
    e!(v, "NaiveDateTime::with_month", |g| g.ndt().with_month(g.u32()));
    e!(v, "NaiveDateTime::with_day0", |g| g.ndt().with_day0(g.u32()));
    e!(v, "NaiveDateTime::with_ordinal", |g| g.ndt().with_ordinal(g.u32()));
    e!(v, "NaiveDateTime::with_hour", |g| g.ndt().with_hour(g.u32()));
    e!(v, "NaiveDateTime::with_nanosecond", |g| g.ndt().with_nanosecond(g.u32()));
    e!(v, "NaiveDateTime::checked_add_signed", |g| g.ndt().checked_add_signed(g.delta()));
    e!(v, "NaiveDateTime::checked_sub_signed", |g| g.ndt().checked_sub_signed(g.delta()));
    e!(v, "NaiveDateTime::checked_add_months", |g| g.ndt().checked_add_months(Months::new(g.u32())));
    e!(v, "NaiveDateTime::checked_sub_months", |g| g.ndt().checked_sub_months(Months::new(g.u32())));
    e!(v, "NaiveDateTime::checked_add_days", |g| g.ndt().checked_add_days(Days::new(g.u64())));
    e!(v, "NaiveDateTime::checked_sub_days", |g| g.ndt().checked_sub_days(Days::new(g.u64())));
    e!(v, "NaiveDateTime::checked_add_offset", |g| g.ndt().checked_add_offset(g.offset()));
    e!(v, "NaiveDateTime::checked_sub_offset", |g| g.ndt().checked_sub_offset(g.offset()));
    e!(v, "NaiveDateTime::signed_duration_since", |g| g.ndt().signed_duration_since(g.ndt()));
    e!(v, "NaiveDateTime::and_utc.timestamp_nanos_opt", |g| g.ndt().and_utc().timestamp_nanos_opt());
    e!(v, "NaiveDateTime::and_utc.timestamp_micros", |g| g.ndt().and_utc().timestamp_micros());
    // --- DateTime receivers (incl. wall clock in the headroom)
    e!(v, "DateTime::with_year", |g| g.dtf().with_year(g.i32()));
    e!(v, "DateTime::with_month", |g| g.dtf().with_month(g.u32()));
    e!(v, "DateTime::with_month0", |g| g.dtf().with_month0(g.u32()));
    e!(v, "DateTime::with_day", |g| g.dtf().with_day(g.u32()));
    e!(v, "DateTime::with_day0", |g| g.dtf().with_day0(g.u32()));
    e!(v, "DateTime::with_ordinal", |g| g.dtf().with_ordinal(g.u32()));
    e!(v, "DateTime::with_ordinal0", |g| g.dtf().with_ordinal0(g.u32()));
    e!(v, "DateTime::with_hour", |g| g.dtf().with_hour(g.u32()));
    e!(v, "DateTime::with_minute", |g| g.dtf().with_minute(g.u32()));
    e!(v, "DateTime::with_second", |g| g.dtf().with_second(g.u32()));
    e!(v, "DateTime::with_nanosecond", |g| g.dtf().with_nanosecond(g.u32()));
    e!(v, "DateTime::with_time", |g| g.dtf().with_time(g.time()));
    e!(v, "DateTime::checked_add_signed", |g| g.dtf().checked_add_signed(g.delta()));
    e!(v, "DateTime::checked_sub_signed", |g| g.dtf().checked_sub_signed(g.delta()));
    e!(v, "DateTime::checked_add_months", |g| g.dtf().checked_add_months(Months::new(g.u32())));
    e!(v, "DateTime::checked_sub_months", |g| g.dtf().checked_sub_months(Months::new(g.u32())));
    e!(v, "DateTime::checked_add_days", |g| g.dtf().checked_add_days(Days::new(g.u64())));
    e!(v, "DateTime::checked_sub_days", |g| g.dtf().checked_sub_days(Days::new(g.u64())));
    e!(v, "DateTime::years_since", |g| g.dtu().years_since(g.dtu()));
    e!(v, "DateTime::signed_duration_since", |g| g.dtf().signed_duration_since(g.dtu()));
    e!(v, "DateTime::timestamp_nanos_opt", |g| g.dtf().timestamp_nanos_opt());
    e!(v, "DateTime::with_timezone", |g| g.dtf().with_timezone(&g.offset()));
    e!(v, "DateTime::accessors", |g| {
        let d = g.dtf();
        (d.year(), d.month() + d.day() + d.ordinal() + d.hour() + d.minute() + d.second() + d.nanosecond() % 7 + d.weekday().num_days_from_monday() + d.iso_week().week())
    });
    e!(v, "DateTime::Debug", |g| write_fmt_result(format_args!("{:?}", g.dtf())));
    e!(v, "DateTime::Display", |g| write_fmt_result(g.dtf()));
    e!(v, "DateTime::time", |g| g.dtf().time());
    // --- RFC 3339 renderers
    e!(v, "DateTime::to_rfc3339", |g| g.dtf().to_rfc3339());
    e!(v, "DateTime::to_rfc3339_opts", |g| g.dtf().to_rfc3339_opts(g.secform(), g.flag()));
    e!(v, "DateTime<Utc>::to_rfc3339_opts", |g| g.dtu().to_rfc3339_opts(g.secform(), g.flag()));
    // --- rounding
    e!(v, "DateTime::duration_round", |g| g.dtf().duration_round(g.delta()));
    e!(v, "DateTime::duration_trunc", |g| g.dtf().duration_trunc(g.delta()));
    e!(v, "DateTime::duration_round_up", |g| g.dtf().duration_round_up(g.delta()));
    e!(v, "NaiveDateTime::duration_round", |g| g.ndt().duration_round(g.delta()));
    e!(v, "NaiveDateTime::duration_trunc", |g| g.ndt().duration_trunc(g.delta()));
    e!(v, "NaiveDateTime::duration_round_up", |g| g.ndt().duration_round_up(g.delta()));
    e!(v, "NaiveDateTime::trunc_subsecs", |g| g.ndt().trunc_subsecs(g.u16()));
    e!(v, "DateTime::trunc_subsecs", |g| g.dtf().trunc_subsecs(g.u16()));
    e!(v, "NaiveTime::round_subsecs", |g| g.time().round_subsecs(g.u16()));
    // --- TimeDelta
    e!(v, "TimeDelta::checked_add", |g| g.delta().checked_add(&g.delta()));
    e!(v, "TimeDelta::checked_sub", |g| g.delta().checked_sub(&g.delta()));
    e!(v, "TimeDelta::checked_mul", |g| g.delta().checked_mul(g.i32()));
    e!(v, "TimeDelta::checked_div", |g| g.delta().checked_div(g.i32()));
    e!(v, "TimeDelta::to_std", |g| g.delta().to_std());
    e!(v, "TimeDelta::abs", |g| g.delta().abs());
    e!(v, "TimeDelta::num_*", |g| {
        let d = g.delta();
        (d.num_weeks() ^ d.num_days() ^ d.num_hours() ^ d.num_minutes() ^ d.num_seconds() ^ d.num_milliseconds(), (d.num_microseconds().is_some(), d.num_nanoseconds().is_some()))
    });
    e!(v, "TimeDelta::Display", |g| write_fmt_result(g.delta()));
    // --- FromStr and the fixed-format parsers
    e!(v, "NaiveDate::from_str", |g| g.text().parse::<NaiveDate>());
    e!(v, "NaiveTime::from_str", |g| g.text().parse::<NaiveTime>());
    e!(v, "NaiveDateTime::from_str", |g| g.text().parse::<NaiveDateTime>());
    e!(v, "DateTime<Utc>::from_str", |g| g.text().parse::<DateTime<Utc>>());
    e!(v, "DateTime<FixedOffset>::from_str", |g| g.text().parse::<DateTime<FixedOffset>>());
    e!(v, "FixedOffset::from_str", |g| g.text().parse::<FixedOffset>());
    e!(v, "Weekday::from_str", |g| g.text().parse::<Weekday>());
    e!(v, "Month::from_str", |g| g.text().parse::<Month>());
    e!(v, "DateTime::parse_from_rfc3339", |g| DateTime::parse_from_rfc3339(&g.text()));
    e!(v, "DateTime::parse_from_rfc2822", |g| DateTime::parse_from_rfc2822(&g.text()));
    // --- format-string parsers
    e!(v, "NaiveDate::parse_from_str", |g| NaiveDate::parse_from_str(&g.text(), &g.fmt()));
    e!(v, "NaiveTime::parse_from_str", |g| NaiveTime::parse_from_str(&g.text(), &g.fmt()));
    e!(v, "NaiveDateTime::parse_from_str", |g| NaiveDateTime::parse_from_str(&g.text(), &g.fmt()));
    e!(v, "DateTime::parse_from_str", |g| DateTime::parse_from_str(&g.text(), &g.fmt()));
    e!(v, "NaiveDate::parse_and_remainder", |g| {
        let (t, f) = (g.text(), g.fmt());
        NaiveDate::parse_and_remainder(&t, &f).map(|(d, rest)| (d, rest.len()))
    });
    e!(v, "NaiveDateTime::parse_and_remainder", |g| {
        let (t, f) = (g.text(), g.fmt());
        NaiveDateTime::parse_and_remainder(&t, &f).map(|(d, rest)| (d, rest.len()))
    });
    e!(v, "DateTime::parse_and_remainder", |g| {
        let (t, f) = (g.text(), g.fmt());
        DateTime::parse_and_remainder(&t, &f).map(|(d, rest)| (d, rest.len()))
    });
    e!(v, "Utc.datetime_from_str-like (format::parse + to_datetime_with_timezone)", |g| {
        let (t, f) = (g.text(), g.fmt());
        let mut p = Parsed::new();
        chrono::format::parse(&mut p, &t, StrftimeItems::new(&f)).and_then(|_| p.to_datetime_with_timezone(&Utc))
    });
    // formatting self-produced text back (valid text, hostile format)
    e!(v, "format-then-parse with the same random format", |g| {
        let f = g.fmt();
        let d = g.dtf();
        match write_fmt_result(d.format(&f)) {
            Ok(s) => DateTime::parse_from_str(&s, &f).map(|_| ()).or(Ok::<(), ()>(())),
            Err(_) => Ok(()),
        }
    });
    // --- formatting with arbitrary format strings, through write!
    e!(v, "NaiveDate::format (write!)", |g| write_fmt_result(g.date().format(&g.fmt())));
    e!(v, "NaiveTime::format (write!)", |g| write_fmt_result(g.time().format(&g.fmt())));
    e!(v, "NaiveDateTime::format (write!)", |g| write_fmt_result(g.ndt().format(&g.fmt())));
    e!(v, "DateTime<FixedOffset>::format (write!)", |g| write_fmt_result(g.dtf().format(&g.fmt())));
    e!(v, "DateTime<Utc>::format (write!)", |g| write_fmt_result(g.dtu().format(&g.fmt())));
    e!(v, "DelayedFormat::write_to", |g| {
        let f = g.fmt();
        let mut s = String::new();
        g.dtf().format(&f).write_to(&mut s).map(|_| s)
    });
    e!(v, "StrftimeItems::parse", |g| StrftimeItems::new(&g.fmt()).parse().map(|items| items.len()));
    e!(v, "StrftimeItems::parse_to_owned", |g| StrftimeItems::new_lenient(&g.fmt()).parse_to_owned().map(|items| items.len()));
    e!(v, "format_with_items(parsed items)", |g| {
        let f = g.fmt();
        match StrftimeItems::new(&f).parse() {
            Ok(items) => write_fmt_result(g.dtf().format_with_items(items.iter())),
            Err(_) => Err(std::fmt::Error),
        }
    });
    // --- serde text forms
    e!(v, "serde_json::from_str::<NaiveDate>", |g| serde_json::from_str::<NaiveDate>(&format!("{:?}", g.text())));
    e!(v, "serde_json::from_str::<NaiveTime>", |g| serde_json::from_str::<NaiveTime>(&format!("{:?}", g.text())));
    e!(v, "serde_json::from_str::<NaiveDateTime>", |g| serde_json::from_str::<NaiveDateTime>(&format!("{:?}", g.text())));
    e!(v, "serde_json::from_str::<DateTime<Utc>>", |g| serde_json::from_str::<DateTime<Utc>>(&format!("{:?}", g.text())));
    e!(v, "serde_json::from_str::<DateTime<FixedOffset>>", |g| serde_json::from_str::<DateTime<FixedOffset>>(&format!("{:?}", g.text())));
    e!(v, "serde_json::from_str::<TimeDelta>", |g| serde_json::from_str::<TimeDelta>(&format!("[{},{}]", g.i64(), g.i64())));
    e!(v, "serde_json::from_str::<Weekday>", |g| serde_json::from_str::<Weekday>(&format!("{:?}", g.text())));
    e!(v, "serde_json::from_str::<Month>", |g| serde_json::from_str::<Month>(&format!("{:?}", g.text())));
    e!(v, "serde_json::to_string(DateTime<FixedOffset>)", |g| serde_json::to_string(&g.dtf()));
    e!(v, "serde_json::to_string(NaiveDateTime)", |g| serde_json::to_string(&g.ndt()));
    e!(v, "bincode::serialize(DateTime<FixedOffset>)", |g| bincode::serialize(&g.dtf()).map(|b| b.len()));
    v
}

impl Valid for std::fmt::Error {
    fn problem(&self) -> Option<String> {
        None
    }
}

// ------------------------------------------------------------------------------------------------
// phases
// ------------------------------------------------------------------------------------------------

/// Documented panic sites: (entry substring, message substring). A panic there is counted, not judged.
const DOCUMENTED_PANICS: &[(&str, &str)] = &[
    // the `+` operator on a NaiveDateTime is documented to panic on overflow; round_subsecs uses it when the carry leaves the range
    ("round_subsecs", "overflowed"),
];

fn run_entry(loc: &mut Local, ix: &Ix, slot: &Slot, name: &str, f: &(dyn Fn(&mut Gen) -> (Option<String>, bool) + Sync + Send), rng: &mut Rng) {
    let mut g = Gen { rng, log: Vec::new(), extreme: false, range_end: false, leap: false, headroom: false };
    loc.eval();
    loc.bucket(ix.table);
    if let Ok(mut w) = slot.what.lock() {
        w.clear();
        w.push_str(name);
    }
    slot.started_ms.store(now_ms(), Ordering::Relaxed);
    // arguments are drawn inside the guarded closure; the log survives a panic because `g` lives outside
    let r = guard(|| f(&mut g));
    slot.started_ms.store(0, Ordering::Relaxed);
    if g.extreme {
        loc.bucket(ix.extreme)
    }
    if g.range_end {
        loc.bucket(ix.range_end)
    }
    if g.leap {
        loc.bucket(ix.leap)
    }
    if g.headroom {
        loc.bucket(ix.headroom)
    }
    if name.contains("rfc3339") {
        loc.bucket(ix.rfc3339)
    }
    if name.contains("duration_") || name.contains("subsecs") {
        loc.bucket(ix.rounding)
    }
    if name.starts_with("serde_json::from_str") {
        loc.bucket(ix.serde)
    }
    if name.contains("from_str") || name.contains("parse_from_rfc") {
        loc.bucket(ix.parse_strings)
    }
    if name.contains("parse_from_str") || name.contains("parse_and_remainder") {
        loc.bucket(ix.parse_fmt)
    }
    if name.contains("format") || name.contains("StrftimeItems") {
        loc.bucket(ix.fmt)
    }
    match r {
        Ok((problem, failed)) => {
            loc.bucket(if failed { ix.none_err } else { ix.validated });
            if let Some(p) = problem {
                loc.violation(&format!("C15/{}/returns-invalid-value", name), json!({"entry": name, "arguments": g.log, "problem": p}));
            }
        }
        Err(p) => {
            if DOCUMENTED_PANICS.iter().any(|(e, m)| name.contains(e) && p.msg.contains(m)) {
                loc.bucket(ix.documented);
            } else {
                loc.violation(&format!("C15/{}/panic@{}", name, p.site()), json!({"entry": name, "arguments": g.log, "panic": p.to_json()}));
            }
        }
    }
    if g.extreme || g.range_end || g.headroom || g.leap {
        loc.nontrivial(h2(hstr(name), hstr(&g.log.join(","))));
    }
    loc.sample(|| json!({"entry": name, "arguments": g.log}));
}

struct Ix {
    cross: usize, table: usize, range_end: usize, leap: usize, headroom: usize, extreme: usize, fmt: usize, fmt23: usize, fmt_trunc: usize, fmt_mb: usize, fmt_long: usize,
    step: usize, err_item: usize, parse_strings: usize, parse_fmt: usize, setters: usize, rfc3339: usize, rounding: usize, serde: usize, validated: usize, none_err: usize, documented: usize,
}

fn ixs() -> Ix {
    Ix {
        cross: bi("constructor_cross_product"), table: bi("entry_point_table"), range_end: bi("receiver_range_end"), leap: bi("receiver_leap_second"), headroom: bi("receiver_headroom_offset"),
        extreme: bi("arg_integer_extreme"), fmt: bi("format_strings"), fmt23: bi("format_two_three_byte_specifiers"), fmt_trunc: bi("format_truncated_specifier"), fmt_mb: bi("format_multibyte"),
        fmt_long: bi("format_long"), step: bi("items_step_monitor"), err_item: bi("items_error_item_seen"), parse_strings: bi("parse_strings"), parse_fmt: bi("parse_with_format"),
        setters: bi("parsed_setters"), rfc3339: bi("rfc3339_renderers"), rounding: bi("rounding"), serde: bi("serde_deserialize_text"), validated: bi("returned_value_validated"),
        none_err: bi("returned_none_or_err"), documented: bi("documented_panic_site_counted"),
    }
}

/// Step monitor: iterating the items of any format string terminates within 8*len + 16 items.
fn check_items(loc: &mut Local, ix: &Ix, slot: &Slot, s: &str) {
    let bound = 8 * s.len() + 16;
    for lenient in [false, true] {
        loc.eval();
        loc.bucket(ix.step);
        if let Ok(mut w) = slot.what.lock() {
            w.clear();
            w.push_str(if lenient { "StrftimeItems::new_lenient" } else { "StrftimeItems::new" });
            w.push('\u{1}');
            w.push_str(&s.chars().take(200).collect::<String>());
        }
        slot.started_ms.store(now_ms(), Ordering::Relaxed);
        let r = guard(|| {
            let it = if lenient { StrftimeItems::new_lenient(s) } else { StrftimeItems::new(s) };
            let mut n = 0usize;
            let mut errs = 0usize;
            for item in it.take(bound + 1) {
                n += 1;
                if matches!(item, Item::Error) {
                    errs += 1;
                }
            }
            (n, errs)
        });
        slot.started_ms.store(0, Ordering::Relaxed);
        let name = if lenient { "StrftimeItems::new_lenient" } else { "StrftimeItems::new" };
        match r {
            Ok((n, errs)) => {
                if errs > 0 {
                    loc.bucket(ix.err_item)
                }
                if n > bound {
                    loc.violation(
                        &format!("C15/{}/item-iteration-does-not-terminate", name),
                        json!({"format": s.chars().take(300).collect::<String>(), "format_len": s.len(), "items_taken": n, "bound": bound, "error_items": errs}),
                    );
                }
            }
            Err(p) => loc.violation(&format!("C15/{}/panic@{}", name, p.site()), json!({"format": s.chars().take(300).collect::<String>(), "panic": p.to_json()})),
        }
        loc.nontrivial(h2(lenient as u64, hstr(s)));
    }
}

/// Formatting a fixed set of values with a format string through `write!`: Err is fine, a panic is not.
fn check_format_all(loc: &mut Local, ix: &Ix, slot: &Slot, s: &str, vals: &(NaiveDate, NaiveTime, NaiveDateTime, DateTime<FixedOffset>, DateTime<Utc>)) {
    loc.eval();
    loc.bucket(ix.fmt);
    if let Ok(mut w) = slot.what.lock() {
        w.clear();
        w.push_str("format (write!)");
        w.push('\u{1}');
        w.push_str(&s.chars().take(200).collect::<String>());
    }
    slot.started_ms.store(now_ms(), Ordering::Relaxed);
    let r = guard(|| {
        let mut out = String::new();
        let _ = write!(out, "{}", vals.0.format(s));
        let _ = write!(out, "{}", vals.1.format(s));
        let _ = write!(out, "{}", vals.2.format(s));
        let _ = write!(out, "{}", vals.3.format(s));
        let _ = write!(out, "{}", vals.4.format(s));
        // and the readers with this format on a fixed text
        let _ = NaiveDate::parse_from_str("2015-09-05", s);
        let _ = NaiveDateTime::parse_from_str("2015-09-05 23:56:04", s);
        let _ = DateTime::parse_from_str("2015-09-05 23:56:04 +0900", s);
        let _ = NaiveTime::parse_from_str("23:56:04", s);
        out.len()
    });
    slot.started_ms.store(0, Ordering::Relaxed);
    if let Err(p) = r {
        loc.violation(&format!("C15/format-or-parse-with-format-string/panic@{}", p.site()), json!({"format": s.chars().take(300).collect::<String>(), "panic": p.to_json()}));
    }
}

pub fn run(ctx: &Ctx) -> Outcome {
    let rep = Report::new("C15", B, FLOOR);
    if let Err(e) = rc::self_test() {
        rep.harness_error(e);
        return rep.finish(ctx, "self-test failed", &[]);
    }
    let ix = ixs();
    start_watchdog();
    let tbl = table();
    rep.set_extra("entry_points_in_table", json!(tbl.len()));
    rep.set_extra("entry_point_names", json!(tbl.iter().map(|e| e.0).collect::<Vec<_>>()));

    // 1. full cross product of the catalogues for the main constructors
    {
        let i32s: Vec<i64> = I32X.to_vec();
        let u32s: Vec<i64> = U32X.to_vec();
        let (i32s, u32s) = (&i32s, &u32s);
        par_shards(&rep, ctx.threads, i32s.len(), |k| {
            let mut loc = rep.local();
            let y = i32s[k] as i32;
            let chk = |loc: &mut Local, name: &str, args: serde_json::Value, r: Result<Option<String>, crate::mon::PanicInfo>| {
                loc.eval();
                loc.bucket(ix.cross);
                match r {
                    Ok(Some(p)) => loc.violation(&format!("C15/{}/returns-invalid-value", name), json!({"arguments": args, "problem": p})),
                    Ok(None) => {}
                    Err(p) => loc.violation(&format!("C15/{}/panic@{}", name, p.site()), json!({"arguments": args, "panic": p.to_json()})),
                }
            };
            for &a in u32s {
                for &b in u32s {
                    let (a, b) = (a as u32, b as u32);
                    chk(&mut loc, "NaiveDate::from_ymd_opt", json!([y, a, b]), guard(|| NaiveDate::from_ymd_opt(y, a, b).problem()));
                    chk(&mut loc, "NaiveDate::from_weekday_of_month_opt", json!([y, a, b]), guard(|| NaiveDate::from_weekday_of_month_opt(y, a, Weekday::Sun, b as u8).problem()));
                    chk(&mut loc, "Utc.with_ymd_and_hms", json!([y, a, b]), guard(|| Utc.with_ymd_and_hms(y, a, b, b, a, a).problem()));
                    chk(&mut loc, "NaiveTime::from_hms_nano_opt", json!([a, b, y]), guard(|| NaiveTime::from_hms_nano_opt(a, b, a, y as u32).problem()));
                    chk(&mut loc, "NaiveTime::from_hms_milli_opt", json!([a, b, y]), guard(|| NaiveTime::from_hms_milli_opt(a, b, 59, y as u32).problem()));
                }
                let a = a as u32;
                chk(&mut loc, "NaiveDate::from_yo_opt", json!([y, a]), guard(|| NaiveDate::from_yo_opt(y, a).problem()));
                for wd in 0..7 {
                    chk(&mut loc, "NaiveDate::from_isoywd_opt", json!([y, a, wd]), guard(|| NaiveDate::from_isoywd_opt(y, a, crate::props::c01::wd_of(wd)).problem()));
                }
                chk(&mut loc, "NaiveTime::from_num_seconds_from_midnight_opt", json!([a, y]), guard(|| NaiveTime::from_num_seconds_from_midnight_opt(a, y as u32).problem()));
                for &s in &gen::catalogue_i64() {
                    chk(&mut loc, "DateTime::from_timestamp", json!([s, a]), guard(|| DateTime::from_timestamp(s, a).problem()));
                }
            }
            for &s in &gen::catalogue_i64() {
                chk(&mut loc, "TimeDelta::try_*", json!([s]), guard(|| {
                    TimeDelta::try_weeks(s).problem().or(TimeDelta::try_days(s).problem()).or(TimeDelta::try_hours(s).problem()).or(TimeDelta::try_minutes(s).problem())
                        .or(TimeDelta::try_seconds(s).problem()).or(TimeDelta::try_milliseconds(s).problem()).or(TimeDelta::microseconds(s).problem()).or(TimeDelta::nanoseconds(s).problem())
                }));
                chk(&mut loc, "TimeDelta::checked_mul", json!([s, y]), guard(|| TimeDelta::nanoseconds(s).checked_mul(y).problem().or(TimeDelta::try_milliseconds(s).and_then(|d| d.checked_mul(y)).problem())));
                chk(&mut loc, "DateTime::from_timestamp_millis/micros", json!([s]), guard(|| DateTime::from_timestamp_millis(s).problem().or(DateTime::from_timestamp_micros(s).problem())));
            }
            chk(&mut loc, "NaiveDate::from_num_days_from_ce_opt", json!([y]), guard(|| NaiveDate::from_num_days_from_ce_opt(y).problem()));
            chk(&mut loc, "FixedOffset::east_opt", json!([y]), guard(|| FixedOffset::east_opt(y).problem().or(FixedOffset::west_opt(y).problem())));
        });
    }

    // 2. the entry-point table with drawn arguments
    {
        let total = ctx.n(3_000_000, 300_000_000);
        let n_shards = 128usize;
        let per = total / n_shards as u64;
        let tbl = &tbl;
        par_shards(&rep, ctx.threads, n_shards, |shard| {
            let mut rng = Rng::new(ctx.seed, "C15/table", shard as u64);
            let mut loc = rep.local();
            let slot = new_slot();
            let n = tbl.len() as u64;
            for i in 0..per {
                // every entry gets its share; order randomised per shard
                let k = ((i + shard as u64 * 7) % n) as usize;
                let (name, f) = &tbl[k];
                run_entry(&mut loc, &ix, slot, name, f.as_ref(), &mut rng);
            }
        });
    }

    // 3. format strings: every 2- and 3-byte combination of '%' with printable ASCII, truncated specifiers, multi-byte, long
    {
        let vals = (
            NaiveDate::from_ymd_opt(-5, 2, 28).unwrap(),
            NaiveTime::from_hms_nano_opt(23, 59, 59, 1_999_999_999).unwrap(),
            NaiveDateTime::MAX,
            FixedOffset::east_opt(86_399).unwrap().from_utc_datetime(&NaiveDateTime::MAX),
            DateTime::<Utc>::MIN_UTC,
        );
        let printable: Vec<u8> = (0x20u8..0x7f).collect();
        let printable = &printable;
        par_shards(&rep, ctx.threads, printable.len(), |k| {
            let mut loc = rep.local();
            let slot = new_slot();
            let a = printable[k] as char;
            let two = format!("%{}", a);
            loc.bucket(ix.fmt23);
            check_items(&mut loc, &ix, slot, &two);
            check_format_all(&mut loc, &ix, slot, &two, &vals);
            for &b in printable.iter() {
                for s in [format!("%{}{}", a, b as char), format!("{}%{}", a, b as char)] {
                    loc.bucket(ix.fmt23);
                    check_items(&mut loc, &ix, slot, &s);
                    check_format_all(&mut loc, &ix, slot, &s, &vals);
                }
                if matches!(a, '-' | '_' | '0' | ':' | '.' | '#' | '3' | '6' | '9') {
                    for &c in printable.iter() {
                        let s = format!("%{}{}{}", a, b as char, c as char);
                        check_items(&mut loc, &ix, slot, &s);
                        if matches!(b as char, ':' | '3' | '6' | '9' | 'f' | 'z') {
                            check_format_all(&mut loc, &ix, slot, &s, &vals);
                        }
                    }
                }
            }
        });
        let mut loc = rep.local();
        let slot = new_slot();
        for s in ["%", "%-", "%_", "%0", "%:", "%::", "%:::", "%.", "%.3", "%.6", "%.9", "%#", "%3", "%6", "%9", "abc%", "%Y-%m-%", "%%%", "%Q", "%-Q", "%.1f", "%#Y", "%-A", "%:f", "%::f", "%.f%", "%é", "%\u{1F600}", "é%", "%-é"] {
            loc.bucket(ix.fmt_trunc);
            check_items(&mut loc, &ix, slot, s);
            check_format_all(&mut loc, &ix, slot, s, &vals);
        }
        for s in ["日本語%Y年%m月%d日", "%Yé%mß%d", "\u{1F600}%H\u{1F600}%M", "%A\u{2212}%B", "ａ%ｄ", "%c日%x本%X"] {
            loc.bucket(ix.fmt_mb);
            check_items(&mut loc, &ix, slot, s);
            check_format_all(&mut loc, &ix, slot, s, &vals);
        }
        let mut rng = Rng::new(ctx.seed, "C15/long", 0);
        for _ in 0..ctx.n(300, 20_000) {
            let mut s = String::new();
            while s.len() < 3500 {
                s.push_str(&random_format(&mut rng));
                s.push_str(*rng.pick(&["%c", "%+", "%D", "%r", "%v", "%Q", "%"]));
            }
            let mut cut = 4096.min(s.len());
            while !s.is_char_boundary(cut) {
                cut -= 1;
            }
            s.truncate(cut);
            loc.bucket(ix.fmt_long);
            check_items(&mut loc, &ix, slot, &s);
            check_format_all(&mut loc, &ix, slot, &s, &vals);
        }
        let n_rand = ctx.n(200_000, 20_000_000);
        drop(loc);
        par_shards(&rep, ctx.threads, 64, |shard| {
            let mut rng = Rng::new(ctx.seed, "C15/fmt", shard as u64);
            let mut loc = rep.local();
            let slot = new_slot();
            for _ in 0..n_rand / 64 {
                let s = random_format(&mut rng);
                check_items(&mut loc, &ix, slot, &s);
                if rng.chance(1, 4) {
                    check_format_all(&mut loc, &ix, slot, &s, &vals);
                }
            }
        });
    }

    // 4. Parsed: setters with extreme arguments, then every to_* method
    {
        let total = ctx.n(400_000, 40_000_000);
        par_shards(&rep, ctx.threads, 64, |shard| {
            let mut rng = Rng::new(ctx.seed, "C15/parsed", shard as u64);
            let mut loc = rep.local();
            let cat = gen::catalogue_i64();
            for _ in 0..total / 64 {
                loc.eval();
                loc.bucket(ix.setters);
                let mut vals: Vec<i64> = Vec::new();
                for _ in 0..24 {
                    vals.push(match rng.below(4) {
                        0 => *rng.pick(&cat),
                        1 => *rng.pick(&[-8_334_601_228_800i64, 8_210_266_876_799, -8_334_601_228_801, 8_210_266_876_800, 60, 59, 0, 23, 12, 366, 53, 31, 99, 2_621_42, -2_621_43]),
                        2 => rng.range(-3, 70),
                        _ => rng.range(-300_000, 300_000),
                    });
                }
                let mask = rng.next();
                let tzo = rng.range(-86_399, 86_399) as i32;
                let r = guard(|| {
                    let mut p = Parsed::new();
                    let mut k = 0;
                    macro_rules! s {
                        ($f:ident) => {{
                            if mask >> k & 1 == 1 {
                                let _ = p.$f(vals[k]);
                            }
                            k += 1;
                        }};
                    }
                    s!(set_year);
                    s!(set_year_div_100);
                    s!(set_year_mod_100);
                    s!(set_isoyear);
                    s!(set_isoyear_div_100);
                    s!(set_isoyear_mod_100);
                    s!(set_quarter);
                    s!(set_month);
                    s!(set_week_from_sun);
                    s!(set_week_from_mon);
                    s!(set_isoweek);
                    s!(set_ordinal);
                    s!(set_day);
                    s!(set_hour12);
                    s!(set_hour);
                    s!(set_minute);
                    s!(set_second);
                    s!(set_nanosecond);
                    s!(set_timestamp);
                    s!(set_offset);
                    if mask >> k & 1 == 1 {
                        let _ = p.set_weekday(crate::props::c01::wd_of(vals[k].rem_euclid(7)));
                    }
                    if mask >> (k + 1) & 1 == 1 {
                        let _ = p.set_ampm(vals[k + 1] & 1 == 1);
                    }
                    let fo = FixedOffset::east_opt(tzo).unwrap();
                    p.to_naive_date().problem().or(p.to_naive_time().problem()).or(p.to_naive_datetime_with_offset(tzo).problem()).or(p.to_fixed_offset().problem())
                        .or(p.to_datetime().problem()).or(p.to_datetime_with_timezone(&Utc).problem()).or(p.to_datetime_with_timezone(&fo).problem())
                });
                match r {
                    Ok(Some(pb)) => loc.violation("C15/Parsed::to_*/returns-invalid-value", json!({"values": vals, "mask": mask.to_string(), "problem": pb})),
                    Ok(None) => {}
                    Err(p) => loc.violation(&format!("C15/Parsed::set_*-then-to_*/panic@{}", p.site()), json!({"values": vals, "mask": mask.to_string(), "offset": tzo, "panic": p.to_json()})),
                }
                loc.nontrivial(h2(mask, vals.iter().fold(0u64, |a, v| h2(a, *v as u64))));
            }
        });
    }
    rep.finish(
        ctx,
        "a table of the public fallible entry points (constructors, with_*, checked_*, try_*, from_timestamp*, FromStr, parse_from_*, parse_and_remainder, Parsed set_*/to_*, DurationRound, SubsecRound, to_rfc3339[_opts], StrftimeItems parse, format through write!/write_to, serde text forms) is driven with arguments drawn from integer-type extremes, range ends ±1 and random values, receivers from {MIN, MAX, MIN/MAX_UTC with ±23:59:59 offsets (wall clock in the headroom), leap seconds, epoch, random}; the main constructors additionally get the full cross product of a 32-value i32 catalogue and a 32-value u32 catalogue; format strings: every 2- and 3-byte combination of '%' with printable ASCII, truncated specifiers, multi-byte text, random strings up to 4 KiB, each iterated under a step bound of 8*len+16 items and used for formatting and parsing. Every call runs under the panic monitor, every returned value under the validity monitor, every call under a hang watchdog (15 s of the calling thread's own CPU time). Non-trivial: calls that involve an extreme argument, a range-end receiver, a leap second or a headroom wall clock; distinct = distinct (entry, argument list)",
        &["the allow-list of documented panic sites is: SubsecRound::round_subsecs when the carry leaves the range (uses the documented-to-panic `+`)", "operators and deprecated panicking constructors are not in the table"],
    )
}
