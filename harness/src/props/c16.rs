//! C16 — the TZif and TZ-rule readers accept well-formed data and survive everything else.
//! Oracles: R-tz writer/reader/POSIX model (accept + exact dump, reject by category), panic
//! monitor + counting allocator (survive), hook and public `Local` route for queries on accepted
//! zones. Header-field extremes run in a child process because an allocation failure aborts.

use crate::allocmon;
use crate::mon::{guard, h2, hbytes, hstr, par_shards, Ctx, Local, Outcome, Report, Tier};
use crate::props::c05::{max_secs, min_secs, system_zone_files};
use crate::props::tzchild::{self, Ans};
use crate::reftz::{self as tz, Day, Rule, TzType, WriteOpts, ZoneModel};
use crate::rng::Rng;
use chrono::__verif::{DayDump, RuleDump, TypeDump, Zone, ZoneDump};
use serde_json::json;
use std::io::{BufRead, Write};

const B: &[&str] = &[
    "accept_v1", "accept_v2", "accept_v3", "accept_no_transitions", "accept_many_transitions", "accept_many_types", "accept_indicators", "accept_leap_records",
    "accept_footer_absent_or_empty", "accept_footer_fixed", "accept_footer_alternate", "accept_minimal_v1_block", "accept_posix_fixed", "accept_posix_alternate",
    "accept_posix_quoted_names", "accept_posix_explicit_times", "accept_posix_v3_times", "accept_system_file", "accept_system_file_with_leaps",
    "reject_truncation", "reject_magic", "reject_version", "reject_count_mismatch", "reject_indicator_count", "reject_zero_typecnt_or_charcnt", "reject_unsorted_transitions",
    "reject_type_index", "reject_abbrev_index", "reject_isdst", "reject_utoff_min", "reject_footer", "reject_v1_trailing", "reject_tz_string",
    "survive_random_bytes", "survive_mutated_file", "survive_header_extremes_child", "survive_random_tz_string", "survive_accepted_after_mutation",
    "query_hook", "query_public_route", "query_hostile_valid_zone", "alloc_measured",
];
const FLOOR: &[&str] = B;

fn bi(n: &str) -> usize {
    B.iter().position(|x| *x == n).unwrap()
}

// ------------------------------------------------------------------------------------------------
// model -> expected dump
// ------------------------------------------------------------------------------------------------

fn type_dump(t: &TzType) -> TypeDump {
    let name = if t.name.is_empty() { None } else { Some(t.name.clone()) };
    TypeDump { ut_offset: t.off, is_dst: t.dst, name: name.clone(), name_bytes: name.map(|n| n.into_bytes()) }
}

fn day_dump(d: &Day) -> DayDump {
    match *d {
        Day::J1(n) => DayDump::Julian1(n),
        Day::J0(n) => DayDump::Julian0(n),
        Day::M(m, w, d) => DayDump::MonthWeekday(m, w, d),
    }
}

fn rule_dump(r: &Rule) -> RuleDump {
    match &r.dst {
        None => RuleDump::Fixed(type_dump(&r.std)),
        Some(d) => RuleDump::Alternate { std: type_dump(&r.std), dst: type_dump(&d.ty), start: day_dump(&d.start), start_time: d.start_time, end: day_dump(&d.end), end_time: d.end_time },
    }
}

fn model_dump(m: &ZoneModel) -> ZoneDump {
    ZoneDump { transitions: m.transitions.clone(), types: m.types.iter().map(type_dump).collect(), leap_seconds: m.leaps.clone(), rule: m.rule.as_ref().map(rule_dump) }
}

fn hex(b: &[u8]) -> String {
    let n = b.len().min(600);
    let mut s: String = b[..n].iter().map(|x| format!("{:02x}", x)).collect();
    if b.len() > n {
        s.push_str(&format!("...({} bytes)", b.len()));
    }
    s
}

/// Parse under panic + allocation monitors. Returns the result (None on panic, already reported).
fn monitored_parse(loc: &mut Local, what: &str, bytes: &[u8], ix_alloc: usize) -> Option<Result<Zone, String>> {
    let r = guard(|| allocmon::measure(|| Zone::from_tz_data(bytes)));
    match r {
        Ok((res, st)) => {
            loc.bucket(ix_alloc);
            let bound = 64 * bytes.len() as isize + 65_536;
            if st.peak_live > bound || st.max_request > allocmon::REFUSE_ABOVE {
                loc.violation(
                    &format!("C16/from_tz_data/allocation-beyond-input-size/{}", what),
                    json!({"input_len": bytes.len(), "peak_live_bytes": st.peak_live, "largest_request": st.max_request, "bound": bound, "input_hex": hex(bytes)}),
                );
            }
            Some(res)
        }
        Err(p) => {
            allocmon::disarm();
            loc.violation(&format!("C16/from_tz_data/panic@{}/{}", p.site(), what), json!({"input_hex": hex(bytes), "input_len": bytes.len(), "panic": p.to_json()}));
            None
        }
    }
}

fn monitored_parse_str(loc: &mut Local, what: &str, s: &str, ext: bool) -> Option<Result<Zone, String>> {
    let r = guard(|| allocmon::measure(|| Zone::from_tz_string(s, ext)));
    match r {
        Ok((res, st)) => {
            let bound = 64 * s.len() as isize + 65_536;
            if st.peak_live > bound {
                loc.violation(&format!("C16/from_tz_string/allocation-beyond-input-size/{}", what), json!({"input": s, "peak_live_bytes": st.peak_live}));
            }
            Some(res)
        }
        Err(p) => {
            allocmon::disarm();
            loc.violation(&format!("C16/from_tz_string/panic@{}/{}", p.site(), what), json!({"input": s, "v3_extensions": ext, "panic": p.to_json()}));
            None
        }
    }
}

// ------------------------------------------------------------------------------------------------
// generators
// ------------------------------------------------------------------------------------------------

/// A conforming model for the accept oracle. Offsets within (-24h, +24h); names 3-7 chars.
fn conforming_model(rng: &mut Rng, version: u8) -> ZoneModel {
    let n_trans = match rng.below(10) {
        0 => 0,
        1 => 1,
        2 => rng.below(3000) as usize,
        3 => 200 + rng.below(400) as usize,
        _ => rng.below(40) as usize,
    };
    let with_rule = version >= 2 && rng.chance(2, 3);
    let mut m = tz::random_model(rng, n_trans, with_rule, version == 3, version == 1);
    if version < 3 {
        clamp_rule_times(&mut m);
    }
    ensure_unambiguous_footer(rng, &mut m, version);
    // many types now and then (up to 255), sharing a few names so that charcnt stays <= 256
    if rng.chance(1, 8) {
        let names: Vec<String> = (0..4).map(|_| tz::random_name(rng, false)).collect();
        let extra = rng.range(10, 250) as usize;
        while m.types.len() < extra.min(255) {
            m.types.push(TzType { off: tz::random_offset(rng), dst: rng.chance(1, 2), name: rng.pick(&names).clone() });
        }
        let n = m.types.len();
        let keep_last = m.rule.is_some();
        let nt = m.transitions.len();
        for (i, t) in m.transitions.iter_mut().enumerate() {
            if !(keep_last && i + 1 == nt) {
                t.1 = rng.below(n as u64) as usize;
            }
        }
    }
    // well-formed leap-second records (only without an alternate rule: chrono maps the last
    // transition through them when it validates the footer)
    if rng.chance(1, 6) && m.rule.as_ref().map(|r| r.dst.is_none()).unwrap_or(true) {
        let mut t = rng.range(0, 400_000_000);
        let mut corr = 0i32;
        let n = 1 + rng.below(30);
        for _ in 0..n {
            corr += if rng.chance(9, 10) { 1 } else { -1 };
            if m.leaps.is_empty() && corr.abs() != 1 {
                corr = 1;
            }
            m.leaps.push((t, corr));
            // RFC 8536: consecutive leap seconds are at least 28 days minus one second apart
            t += match rng.below(4) {
                0 => 28 * 86_400 - 1,
                1 => 28 * 86_400,
                _ => 28 * 86_400 + rng.range(0, 3 * 365 * 86_400),
            };
            if version == 1 && t > i32::MAX as i64 {
                break;
            }
        }
    }
    m
}

/// A conforming writer makes the footer agree with the type of the last transition; that is only
/// well defined where the rule's own transitions alternate and stay inside the calendar year
/// (the same restriction as in C05). Otherwise draw another rule, finally a fixed one.
fn ensure_unambiguous_footer(rng: &mut Rng, m: &mut ZoneModel, version: u8) {
    let Some(last) = m.transitions.last().copied() else { return };
    for _ in 0..30 {
        if crate::props::c05::rule_scope_ok(m, last.0) {
            return;
        }
        m.rule = Some(tz::random_rule(rng, version == 3, false));
        if version < 3 {
            clamp_rule_times(m);
        }
        fix_last_type(m);
    }
    if !crate::props::c05::rule_scope_ok(m, last.0) {
        if let Some(r) = &mut m.rule {
            r.dst = None;
        }
        fix_last_type(m);
    }
}

fn clamp_rule_times(m: &mut ZoneModel) {
    let mut changed = false;
    if let Some(r) = &mut m.rule {
        if let Some(d) = &mut r.dst {
            let (a, b) = (d.start_time.clamp(0, 86_400), d.end_time.clamp(0, 86_400));
            changed = a != d.start_time || b != d.end_time;
            d.start_time = a;
            d.end_time = b;
        }
    }
    if changed {
        fix_last_type(m);
    }
}

/// keep the footer consistent with the last transition
fn fix_last_type(m: &mut ZoneModel) {
    if let (Some(r), Some(last)) = (m.rule.clone(), m.transitions.last().copied()) {
        let ty = r.type_at(last.0).clone();
        let pos = match m.types.iter().position(|t| *t == ty) {
            Some(p) => p,
            None => {
                m.types.push(ty);
                m.types.len() - 1
            }
        };
        let n = m.transitions.len();
        m.transitions[n - 1].1 = pos;
    }
}

fn small_valid_file(rng: &mut Rng, version: u8) -> (ZoneModel, Vec<u8>) {
    let n = 1 + rng.below(12) as usize;
    let with_rule = version >= 2 && rng.chance(1, 2);
    let mut m = tz::random_model(rng, n, with_rule, version == 3, version == 1);
    if version < 3 {
        clamp_rule_times(&mut m);
    }
    ensure_unambiguous_footer(rng, &mut m, version);
    let b = tz::write_tzif(&m, &WriteOpts { version, indicators: rng.chance(1, 2), full_v1: rng.chance(1, 2), footer_override: None });
    (m, b)
}

/// Offsets (in bytes) of the header and data arrays of the block chrono uses.
struct Layout {
    hdr: usize,
    times: usize,
    time_size: usize,
    n_time: usize,
    idx: usize,
    types: usize,
    n_type: usize,
    chars: usize,
    n_char: usize,
    end_of_block: usize,
}

fn rd_u32(b: &[u8], p: usize) -> usize {
    u32::from_be_bytes([b[p], b[p + 1], b[p + 2], b[p + 3]]) as usize
}

fn block_layout(b: &[u8], hdr: usize, ts: usize) -> Layout {
    let (isut, isstd, leap, time, typ, chr) = (rd_u32(b, hdr + 20), rd_u32(b, hdr + 24), rd_u32(b, hdr + 28), rd_u32(b, hdr + 32), rd_u32(b, hdr + 36), rd_u32(b, hdr + 40));
    let times = hdr + 44;
    let idx = times + time * ts;
    let types = idx + time;
    let chars = types + typ * 6;
    let leaps = chars + chr;
    let end = leaps + leap * (ts + 4) + isstd + isut;
    Layout { hdr, times, time_size: ts, n_time: time, idx, types, n_type: typ, chars, n_char: chr, end_of_block: end }
}

/// Layout of the block that carries the data chrono uses (v1: the only block; v2+: the second).
fn used_layout(b: &[u8]) -> Layout {
    let l1 = block_layout(b, 0, 4);
    if b[4] == 0 {
        l1
    } else {
        block_layout(b, l1.end_of_block, 8)
    }
}

fn set_u32(b: &mut [u8], p: usize, v: u32) {
    b[p..p + 4].copy_from_slice(&v.to_be_bytes());
}

// ------------------------------------------------------------------------------------------------
// phases
// ------------------------------------------------------------------------------------------------

fn phase_accept_files(ctx: &Ctx, rep: &Report) {
    let total = ctx.n(4_000, 400_000) as usize;
    let n_shards = 64usize;
    let per = total / n_shards;
    let (b_v, b_no, b_many, b_types, b_ind, b_leap, b_f0, b_ff, b_fa, b_min, b_alloc) = (
        [bi("accept_v1"), bi("accept_v2"), bi("accept_v3")], bi("accept_no_transitions"), bi("accept_many_transitions"), bi("accept_many_types"), bi("accept_indicators"),
        bi("accept_leap_records"), bi("accept_footer_absent_or_empty"), bi("accept_footer_fixed"), bi("accept_footer_alternate"), bi("accept_minimal_v1_block"), bi("alloc_measured"),
    );
    par_shards(rep, ctx.threads, n_shards, |shard| {
        let mut rng = Rng::new(ctx.seed, "C16/accept", shard as u64);
        let mut loc = rep.local();
        for _ in 0..per {
            let version = 1 + rng.below(3) as u8;
            let m = conforming_model(&mut rng, version);
            let empty_footer = version >= 2 && m.rule.is_none() && rng.chance(1, 2);
            let opts = WriteOpts { version, indicators: rng.chance(1, 2), full_v1: rng.chance(1, 2), footer_override: if empty_footer { Some(String::new()) } else { None } };
            let bytes = tz::write_tzif(&m, &opts);
            // what a conforming reader sees (32-bit block for v1; footer re-read from its text)
            let expect = match tz::read_tzif_strict(&bytes) {
                Ok((_, mm)) => mm,
                Err(e) => {
                    rep.harness_error(format!("strict reference reader rejects reference writer output: {}", e));
                    continue;
                }
            };
            loc.eval();
            loc.bucket(b_v[(version - 1) as usize]);
            if expect.transitions.is_empty() {
                loc.bucket(b_no)
            }
            if expect.transitions.len() > 1000 {
                loc.bucket(b_many)
            }
            if expect.types.len() > 100 {
                loc.bucket(b_types)
            }
            if opts.indicators {
                loc.bucket(b_ind)
            }
            if !expect.leaps.is_empty() {
                loc.bucket(b_leap)
            }
            match &expect.rule {
                None => loc.bucket(b_f0),
                Some(r) if r.dst.is_none() => loc.bucket(b_ff),
                _ => loc.bucket(b_fa),
            }
            if version >= 2 && !opts.full_v1 {
                loc.bucket(b_min)
            }
            loc.nontrivial(hbytes(&bytes));
            let Some(res) = monitored_parse(&mut loc, "conforming-file", &bytes, b_alloc) else { continue };
            match res {
                Err(e) => loc.violation(
                    &format!("C16/from_tz_data/rejects-conforming-file/v{}", version),
                    json!({"error": e, "version": version, "transitions": expect.transitions.len(), "types": expect.types.len(), "leaps": expect.leaps.len(), "footer": expect.rule.as_ref().map(|r| r.print(false)), "input_hex": hex(&bytes)}),
                ),
                Ok(zone) => {
                    let got = match guard(|| zone.dump()) {
                        Ok(d) => d,
                        Err(p) => {
                            loc.violation(&format!("C16/dump/panic@{}", p.site()), json!({"input_hex": hex(&bytes)}));
                            continue;
                        }
                    };
                    let exp = model_dump(&expect);
                    if got != exp {
                        let what = if got.transitions != exp.transitions {
                            "transitions"
                        } else if got.types != exp.types {
                            "types"
                        } else if got.leap_seconds != exp.leap_seconds {
                            "leap-seconds"
                        } else {
                            "rule"
                        };
                        loc.violation(
                            &format!("C16/from_tz_data/accepted-but-different-{}", what),
                            json!({"version": version, "expected_rule": format!("{:?}", exp.rule), "observed_rule": format!("{:?}", got.rule), "n_transitions": [exp.transitions.len(), got.transitions.len()], "input_hex": hex(&bytes)}),
                        );
                    }
                    // names must be valid UTF-8 (from_utf8_unchecked site)
                    for t in &got.types {
                        if let (Some(n), Some(b)) = (&t.name, &t.name_bytes) {
                            if std::str::from_utf8(b).ok() != Some(n.as_str()) {
                                loc.violation("C16/dump/name-not-valid-utf8", json!({"bytes": hex(b)}));
                            }
                        }
                    }
                    loc.sample(|| json!({"written": {"version": version, "transitions": exp.transitions.len(), "types": exp.types.len(), "leaps": exp.leap_seconds.len(), "footer": expect.rule.as_ref().map(|r| r.print(false))}, "accepted": true}));
                }
            }
        }
    });
}

fn phase_accept_posix(ctx: &Ctx, rep: &Report) {
    let total = ctx.n(20_000, 2_000_000) as usize;
    let n_shards = 64usize;
    let per = total / n_shards;
    let (b_fixed, b_alt, b_quoted, b_expl, b_v3) = (bi("accept_posix_fixed"), bi("accept_posix_alternate"), bi("accept_posix_quoted_names"), bi("accept_posix_explicit_times"), bi("accept_posix_v3_times"));
    par_shards(rep, ctx.threads, n_shards, |shard| {
        let mut rng = Rng::new(ctx.seed, "C16/posix", shard as u64);
        let mut loc = rep.local();
        for _ in 0..per {
            let ext = rng.chance(1, 3);
            let alpha = rng.chance(1, 2);
            let r = tz::random_rule(&mut rng, ext, alpha);
            let explicit = rng.chance(1, 3);
            let text = r.print(explicit);
            loc.eval();
            loc.bucket(if r.dst.is_some() { b_alt } else { b_fixed });
            if text.contains('<') {
                loc.bucket(b_quoted)
            }
            if text.contains('/') {
                loc.bucket(b_expl)
            }
            if let Some(d) = &r.dst {
                if !(0..=86_400).contains(&d.start_time) || !(0..=86_400).contains(&d.end_time) {
                    loc.bucket(b_v3)
                }
            }
            loc.nontrivial(hstr(&text));
            // sanity of the oracle: the reference parser reads back what the reference printer wrote
            if tz::parse_posix(&text, ext).ok().as_ref() != Some(&r) {
                rep.harness_error(format!("reference printer/parser disagree on {}", text));
                continue;
            }
            let Some(res) = monitored_parse_str(&mut loc, "conforming-string", &text, ext) else { continue };
            match res {
                Err(e) => loc.violation("C16/from_tz_string/rejects-conforming-string", json!({"input": text, "v3_extensions": ext, "error": e})),
                Ok(zone) => {
                    let got = zone.dump();
                    let mut types = vec![type_dump(&r.std)];
                    if let Some(d) = &r.dst {
                        types.push(type_dump(&d.ty));
                    }
                    let exp = ZoneDump { transitions: vec![], types, leap_seconds: vec![], rule: Some(rule_dump(&r)) };
                    if got != exp {
                        loc.violation("C16/from_tz_string/accepted-but-different-rule", json!({"input": text, "expected": format!("{:?}", exp), "observed": format!("{:?}", got)}));
                    }
                    loc.sample(|| json!({"tz_string": text, "accepted": true}));
                }
            }
        }
    });
}

fn phase_system_files(_ctx: &Ctx, rep: &Report) {
    let files = system_zone_files();
    let (b_sys, b_leaps, b_alloc) = (bi("accept_system_file"), bi("accept_system_file_with_leaps"), bi("alloc_measured"));
    rep.set_extra("system_tzif_files", json!(files.len()));
    let files = &files;
    par_shards(rep, 16, files.len(), |i| {
        let (path, bytes) = &files[i];
        let mut loc = rep.local();
        let Ok((_, m)) = tz::read_tzif_strict(bytes) else {
            rep.add_extra_count("system_files_not_judged_by_strict_reader", 1);
            return;
        };
        loc.eval();
        loc.bucket(b_sys);
        if !m.leaps.is_empty() {
            loc.bucket(b_leaps)
        }
        loc.nontrivial(hstr(path));
        let Some(res) = monitored_parse(&mut loc, "system-file", bytes, b_alloc) else { return };
        match res {
            Err(e) => loc.violation("C16/from_tz_data/rejects-system-file", json!({"file": path, "error": e})),
            Ok(zone) => {
                let got = zone.dump();
                let exp = model_dump(&m);
                if got != exp {
                    loc.violation("C16/from_tz_data/system-file-read-differently", json!({"file": path, "expected_rule": format!("{:?}", exp.rule), "observed_rule": format!("{:?}", got.rule), "n_transitions": [exp.transitions.len(), got.transitions.len()]}));
                }
            }
        }
    });
}

/// One rejected-by-category case: `bytes` is invalid by construction (or confirmed by the strict reader).
fn expect_reject(loc: &mut Local, cat: &'static str, bucket: usize, bytes: &[u8], b_alloc: usize) {
    loc.eval();
    loc.bucket(bucket);
    loc.nontrivial(h2(hstr(cat), hbytes(bytes)));
    if let Some(Ok(_)) = monitored_parse(loc, cat, bytes, b_alloc) {
        loc.violation(&format!("C16/from_tz_data/accepts-invalid/{}", cat), json!({"category": cat, "input_hex": hex(bytes), "input_len": bytes.len()}));
    }
}

fn phase_reject(ctx: &Ctx, rep: &Report) {
    let total = ctx.n(1_500, 150_000) as usize;
    let n_shards = 64usize;
    let per = (total / n_shards).max(1);
    let b_alloc = bi("alloc_measured");
    let (b_trunc, b_magic, b_ver, b_cnt, b_ind, b_zero, b_uns, b_tidx, b_aidx, b_isdst, b_utoff, b_footer, b_trail, b_str) = (
        bi("reject_truncation"), bi("reject_magic"), bi("reject_version"), bi("reject_count_mismatch"), bi("reject_indicator_count"), bi("reject_zero_typecnt_or_charcnt"),
        bi("reject_unsorted_transitions"), bi("reject_type_index"), bi("reject_abbrev_index"), bi("reject_isdst"), bi("reject_utoff_min"), bi("reject_footer"), bi("reject_v1_trailing"), bi("reject_tz_string"),
    );
    par_shards(rep, ctx.threads, n_shards, |shard| {
        let mut rng = Rng::new(ctx.seed, "C16/reject", shard as u64);
        let mut loc = rep.local();
        for _ in 0..per {
            let version = 1 + rng.below(3) as u8;
            let (_m, base) = small_valid_file(&mut rng, version);
            if tz::read_tzif_strict(&base).is_err() {
                rep.harness_error("small_valid_file is not valid for the strict reader");
                continue;
            }
            let l = used_layout(&base);
            // a. truncations: every strict prefix
            {
                let skip: Option<usize> = None;
                let cuts: Vec<usize> = if base.len() <= 400 { (0..base.len()).collect() } else { (0..60).map(|_| rng.below(base.len() as u64) as usize).chain([0, 1, 4, 5, 43, 44, base.len() - 1]).collect() };
                for c in cuts {
                    if Some(c) == skip {
                        continue;
                    }
                    expect_reject(&mut loc, "truncated", b_trunc, &base[..c], b_alloc);
                }
            }
            // b. magic, c. version
            for p in 0..4 {
                let mut b = base.clone();
                b[p] ^= 1 << rng.below(8);
                expect_reject(&mut loc, "bad-magic", b_magic, &b, b_alloc);
            }
            if version >= 2 {
                // the second header's magic too
                let mut b = base.clone();
                b[l.hdr + rng.below(4) as usize] ^= 0x20;
                expect_reject(&mut loc, "bad-magic", b_magic, &b, b_alloc);
            }
            for v in [1u8, b'1', b'5', b'0', 0xff, b' ', rng.next() as u8] {
                if v == 0 || v == b'2' || v == b'3' || v == b'4' {
                    continue;
                }
                let mut b = base.clone();
                b[4] = v;
                expect_reject(&mut loc, "bad-version", b_ver, &b, b_alloc);
            }
            // d. a header count changed without changing the data (confirmed invalid by the strict reader)
            for field in 0..6 {
                for hdr in [0usize, l.hdr] {
                    let p = hdr + 20 + 4 * field;
                    let old = rd_u32(&base, p) as u32;
                    for nv in [old.wrapping_add(1), old.wrapping_sub(1), old.wrapping_add(256), 0, old.wrapping_mul(2).wrapping_add(3)] {
                        if nv == old {
                            continue;
                        }
                        let mut b = base.clone();
                        set_u32(&mut b, p, nv);
                        if tz::read_tzif_strict(&b).is_ok() {
                            continue; // coincidentally still well-formed
                        }
                        let (cat, bk) = if field < 2 { ("indicator-count", b_ind) } else if (field == 4 || field == 5) && nv == 0 { ("zero-typecnt-or-charcnt", b_zero) } else { ("count-disagrees-with-data", b_cnt) };
                        expect_reject(&mut loc, cat, bk, &b, b_alloc);
                    }
                }
            }
            // g. transitions swapped or equal
            if l.n_time >= 2 {
                let i = rng.below(l.n_time as u64 - 1) as usize;
                let (a, c) = (l.times + i * l.time_size, l.times + (i + 1) * l.time_size);
                let mut b = base.clone();
                for k in 0..l.time_size {
                    b.swap(a + k, c + k);
                }
                expect_reject(&mut loc, "unsorted-transitions", b_uns, &b, b_alloc);
                let mut b = base.clone();
                for k in 0..l.time_size {
                    b[c + k] = base[a + k];
                }
                expect_reject(&mut loc, "equal-transitions", b_uns, &b, b_alloc);
            }
            // h. type index out of bounds
            if l.n_time >= 1 {
                let i = rng.below(l.n_time as u64) as usize;
                for v in [l.n_type as u8, 255u8, (l.n_type as u64 + rng.below(200)) as u8] {
                    if (v as usize) < l.n_type {
                        continue;
                    }
                    let mut b = base.clone();
                    b[l.idx + i] = v;
                    expect_reject(&mut loc, "type-index-out-of-bounds", b_tidx, &b, b_alloc);
                }
            }
            // i. abbreviation index out of bounds / no terminating NUL; j. isdst; k. utoff
            {
                let t = rng.below(l.n_type as u64) as usize;
                let rec = l.types + 6 * t;
                for v in [l.n_char as u8, 255u8] {
                    if (v as usize) < l.n_char {
                        continue;
                    }
                    let mut b = base.clone();
                    b[rec + 5] = v;
                    expect_reject(&mut loc, "abbreviation-index-out-of-bounds", b_aidx, &b, b_alloc);
                }
                // remove every NUL at or after this type's abbreviation start
                let mut b = base.clone();
                let start = l.chars + base[rec + 5] as usize;
                for k in start..l.chars + l.n_char {
                    if b[k] == 0 {
                        b[k] = b'x';
                    }
                }
                expect_reject(&mut loc, "abbreviation-without-nul", b_aidx, &b, b_alloc);
                for v in [2u8, 3, 0x80, 0xff] {
                    let mut b = base.clone();
                    b[rec + 4] = v;
                    expect_reject(&mut loc, "isdst-not-0-or-1", b_isdst, &b, b_alloc);
                }
                let mut b = base.clone();
                b[rec..rec + 4].copy_from_slice(&i32::MIN.to_be_bytes());
                expect_reject(&mut loc, "utoff-i32-min", b_utoff, &b, b_alloc);
                // the same for other offsets of a day or more, on a type with its designation and on a
                // type whose designation index points at a NUL (empty designation)
                let nul_at = (0..l.n_char).find(|k| base[l.chars + *k] == 0);
                for off in [86_400i32, -86_400, 100_000, i32::MAX] {
                    for unnamed in [false, true] {
                        let mut b = base.clone();
                        b[rec..rec + 4].copy_from_slice(&off.to_be_bytes());
                        if unnamed {
                            match nul_at {
                                Some(k) if k < 256 => b[rec + 5] = k as u8,
                                _ => continue,
                            }
                        }
                        expect_reject(&mut loc, if unnamed { "utoff-a-day-or-more/empty-designation" } else { "utoff-a-day-or-more" }, b_utoff, &b, b_alloc);
                    }
                }
            }
            // l. footer; m. trailing bytes after a v1 block
            if version >= 2 {
                let foot = l.end_of_block;
                let body: Vec<u8> = base[foot + 1..base.len() - 1].to_vec();
                let mk = |f: &[u8]| -> Vec<u8> {
                    let mut b = base[..foot].to_vec();
                    b.extend_from_slice(f);
                    b
                };
                let mut bad: Vec<Vec<u8>> = Vec::new();
                bad.push(mk(&[&body[..], b"\n"].concat())); // no leading NL
                bad.push(mk(&[b"\n", &body[..]].concat())); // no trailing NL (unless body empty -> "\n" alone is tolerated)
                bad.push(mk(&[b"\n", &body[..], b"\0\n"].concat()));
                bad.push(mk(&[b"\n:", &body[..], b"\n"].concat()));
                bad.push(mk(b"\nthis is not a rule\n"));
                bad.push(mk(b"\nEST5EDT\n"));
                bad.push(mk(b"\nEST5EDT,M3.2.0\n"));
                bad.push(mk(b"\nEST25\n"));
                bad.push(mk(b"\n\xff\xfe\n"));
                bad.push(mk(b"\n<A,B>5\n"));
                bad.push(mk(b"\nEST5:00:75\n"));
                bad.push(mk(b""));
                for (k, b) in bad.into_iter().enumerate() {
                    if k == 1 && body.is_empty() {
                        continue;
                    }
                    if tz::read_tzif_strict(&b).is_ok() {
                        continue;
                    }
                    expect_reject(&mut loc, "malformed-footer", b_footer, &b, b_alloc);
                }
            } else {
                for extra in [&b"\n"[..], &b"\0"[..], &b"\nUTC0\n"[..], &b"TZif"[..]] {
                    let mut b = base.clone();
                    b.extend_from_slice(extra);
                    expect_reject(&mut loc, "trailing-bytes-after-v1-block", b_trail, &b, b_alloc);
                }
            }
        }
        // TZ strings invalid by category
        let bad = [
            "", "5", "EST", "EST5EDT", "EST5EDT,M3.2.0", "EST5EDT,M3.2.0,", "EST25", "EST5:60", "EST5:00:60", "EST5EDT,M13.1.0,M11.1.0", "EST5EDT,M0.1.0,M11.1.0", "EST5EDT,M3.0.0,M11.1.0",
            "EST5EDT,M3.6.0,M11.1.0", "EST5EDT,M3.2.7,M11.1.0", "EST5EDT,J0,J300", "EST5EDT,J366,J300", "EST5EDT,366,100", "EST5EDT,M3.2.0,M11.1.0x", "EST5EDT,M3.2.0,M11.1.0,M1.1.1",
            "EST5EDT,M3.2.0/25,M11.1.0", "EST5EDT,M3.2.0/2:60,M11.1.0", "<EST5EDT,M3.2.0,M11.1.0", "EST5EDT,M3.2,M11.1.0", "EST5EDT,M3.2.0;M11.1.0", "EST5EDT4,,", "EST+", "EST-", "EST5EDT,J,J300",
            "E5", "ES5", "EST5ED,M3.2.0,M11.1.0", "<ab>5", "<abcdefgh>5", "EST5EDT,M3.2.0,M11.1.0/-1",
            // designations may contain only alphanumerics, '+' and '-'
            "<A,B>1:02:03", "<A.B>5", "<A B>5", "<A!B>5", "<A/B>5", "<A*B>5", "<AB\u{e9}>5", "<A,B>5<C,D>,M3.2.0,M11.1.0",
            // every field of an offset is range-checked
            "EST5:00:75", "EST5:75:00", "EST5:00:99", "EST5EDT4:00:61,M3.2.0,M11.1.0",
        ];
        for s in bad {
            loc.eval();
            loc.bucket(b_str);
            loc.nontrivial(h2(77, hstr(s)));
            if let Some(Ok(_)) = monitored_parse_str(&mut loc, "invalid-string", s, false) {
                loc.violation("C16/from_tz_string/accepts-invalid-string", json!({"input": s}));
            }
        }
    });
}

/// Queries on an accepted zone through the hook: must return (Ok or Err), never panic.
fn query_zone_hook(loc: &mut Local, what: &str, zone: &Zone, extra: &[i64], witness: impl Fn() -> serde_json::Value, b_q: usize) {
    let mut pts: Vec<i64> = vec![min_secs(), min_secs() + 1, -62_167_219_200, -2_208_988_800, -1, 0, 1, 951_782_400, 1_700_000_000, 2_147_483_647, 2_147_483_648, 4_102_444_800, 253_402_300_799, max_secs() - 1, max_secs()];
    pts.extend_from_slice(extra);
    for u in pts {
        if u < min_secs() || u > max_secs() {
            continue;
        }
        loc.eval();
        loc.bucket(b_q);
        if let Err(p) = guard(|| zone.offset_at(u)) {
            loc.violation(&format!("C16/accepted-zone/offset-for-instant/panic@{}/{}", p.site(), what), json!({"unix": u, "zone": witness(), "panic": p.to_json()}));
        }
        if let Some(n) = tzchild::ndt_of_secs(u) {
            if let Err(p) = guard(|| zone.offsets_for_local(n)) {
                loc.violation(&format!("C16/accepted-zone/wall-time-lookup/panic@{}/{}", p.site(), what), json!({"wall_secs": u, "zone": witness(), "panic": p.to_json()}));
            }
        }
    }
}

fn mutate(rng: &mut Rng, base: &[u8]) -> Vec<u8> {
    let mut b = base.to_vec();
    let n = 1 + rng.below(4);
    for _ in 0..n {
        if b.is_empty() {
            b.push(rng.next() as u8);
            continue;
        }
        let p = rng.below(b.len() as u64) as usize;
        match rng.below(9) {
            0 => b[p] ^= 1 << rng.below(8),
            1 => b[p] = rng.next() as u8,
            2 => b[p] = *rng.pick(&[0u8, 1, 0x7f, 0x80, 0xff, b'\n', b'2', b'3']),
            3 => {
                b.remove(p);
            }
            4 => b.insert(p, rng.next() as u8),
            5 => {
                // overwrite an aligned u32 with an extreme
                let q = p & !3;
                if q + 4 <= b.len() {
                    let v = *rng.pick(&[0u32, 1, 0xffff, 0x1_0000, 0x7fff_ffff, 0x8000_0000, 0xffff_ffff]);
                    b[q..q + 4].copy_from_slice(&v.to_be_bytes());
                }
            }
            6 => {
                // overwrite 8 bytes with an extreme i64 (transition times)
                if p + 8 <= b.len() {
                    let v = *rng.pick(&[i64::MIN, i64::MIN + 1, i64::MAX, i64::MAX - 1, -1, 0, i64::MIN + 86_400, i64::MAX - 86_400]);
                    b[p..p + 8].copy_from_slice(&v.to_be_bytes());
                }
            }
            7 => b.truncate(p),
            _ => {
                let q = rng.below(b.len() as u64) as usize;
                b.swap(p, q);
            }
        }
    }
    b
}

fn phase_survive(ctx: &Ctx, rep: &Report) {
    let total = ctx.n(120_000, 20_000_000) as usize;
    let n_shards = 64usize;
    let per = total / n_shards;
    let (b_rand, b_mut, b_str, b_acc, b_alloc, b_q) = (bi("survive_random_bytes"), bi("survive_mutated_file"), bi("survive_random_tz_string"), bi("survive_accepted_after_mutation"), bi("alloc_measured"), bi("query_hook"));
    par_shards(rep, ctx.threads, n_shards, |shard| {
        let mut rng = Rng::new(ctx.seed, "C16/survive", shard as u64);
        let mut loc = rep.local();
        let mut bases: Vec<Vec<u8>> = Vec::new();
        for v in 1..=3u8 {
            for _ in 0..4 {
                bases.push(small_valid_file(&mut rng, v).1);
            }
        }
        for i in 0..per {
            if i % 200 == 0 {
                let v = 1 + rng.below(3) as u8;
                let k = rng.below(bases.len() as u64) as usize;
                bases[k] = small_valid_file(&mut rng, v).1;
            }
            match rng.below(10) {
                0 => {
                    // arbitrary bytes, half of them with a valid magic + version
                    let n = rng.below(300) as usize;
                    let mut b: Vec<u8> = (0..n).map(|_| rng.next() as u8).collect();
                    if rng.chance(1, 2) && b.len() >= 5 {
                        b[..4].copy_from_slice(b"TZif");
                        b[4] = *rng.pick(&[0u8, b'2', b'3']);
                    }
                    loc.eval();
                    loc.bucket(b_rand);
                    loc.nontrivial(hbytes(&b));
                    if let Some(Ok(z)) = monitored_parse(&mut loc, "random-bytes", &b, b_alloc) {
                        query_zone_hook(&mut loc, "random-bytes", &z, &[], || json!({"input_hex": hex(&b)}), b_q);
                    }
                }
                1..=2 => {
                    let s = if rng.chance(1, 2) {
                        crate::gen::random_unicode(&mut rng, 40)
                    } else {
                        // mutate a valid rule string
                        let r = tz::random_rule(&mut rng, true, false).print(rng.chance(1, 2));
                        let mut bytes = r.into_bytes();
                        for _ in 0..1 + rng.below(3) {
                            if bytes.is_empty() {
                                break;
                            }
                            let p = rng.below(bytes.len() as u64) as usize;
                            match rng.below(5) {
                                0 => {
                                    bytes.remove(p);
                                }
                                1 => bytes.insert(p, *rng.pick(b"0123456789,./:+-<>MJ ")),
                                2 => bytes[p] = *rng.pick(b"0123456789,./:+-<>MJ\0\xff"),
                                3 => bytes.truncate(p),
                                _ => {
                                    let d = bytes[p];
                                    bytes.insert(p, d);
                                }
                            }
                        }
                        // huge numbers
                        if rng.chance(1, 10) {
                            bytes.extend_from_slice(b"99999999999999999999");
                        }
                        String::from_utf8_lossy(&bytes).to_string()
                    };
                    loc.eval();
                    loc.bucket(b_str);
                    loc.nontrivial(hstr(&s));
                    let ext = rng.chance(1, 2);
                    if let Some(Ok(z)) = monitored_parse_str(&mut loc, "random-string", &s, ext) {
                        query_zone_hook(&mut loc, "random-string", &z, &[], || json!({"tz_string": s}), b_q);
                    }
                }
                _ => {
                    let base = &bases[rng.below(bases.len() as u64) as usize];
                    let b = mutate(&mut rng, base);
                    loc.eval();
                    loc.bucket(b_mut);
                    loc.nontrivial(hbytes(&b));
                    if let Some(Ok(z)) = monitored_parse(&mut loc, "mutated-file", &b, b_alloc) {
                        loc.bucket(b_acc);
                        // neighbourhoods of the (possibly extreme) transition times
                        let d = z.dump();
                        let mut extra = Vec::new();
                        for (t, _) in d.transitions.iter().take(6).chain(d.transitions.iter().rev().take(6)) {
                            for k in [-86_400i64, -1, 0, 1, 86_400] {
                                extra.push(t.saturating_add(k));
                            }
                        }
                        query_zone_hook(&mut loc, "mutated-file", &z, &extra, || json!({"input_hex": hex(&b)}), b_q);
                    }
                }
            }
        }
    });
}

/// Hostile-but-valid zones: transition times at i64 extremes, offsets up to the i32 extremes, 2^16
/// transitions. Every accepted zone must answer queries without panicking on both routes.
fn phase_hostile_valid(ctx: &Ctx, rep: &Report) {
    let (b_h, b_q, b_pub, b_alloc) = (bi("query_hostile_valid_zone"), bi("query_hook"), bi("query_public_route"), bi("alloc_measured"));
    let n = ctx.n(60, 1500) as usize;
    std::fs::create_dir_all(&ctx.work_dir).ok();
    par_shards(rep, ctx.threads, n, |k| {
        let mut rng = Rng::new(ctx.seed, "C16/hostile", k as u64);
        let mut loc = rep.local();
        let version = if k % 3 == 0 { 3 } else { 2 };
        let mut m = ZoneModel::default();
        let big = |rng: &mut Rng| -> i32 {
            match rng.below(6) {
                0 => i32::MAX,
                1 => i32::MIN + 1,
                2 => 86_400,
                3 => -86_400,
                4 => rng.range(86_400, 200_000) as i32 * if rng.chance(1, 2) { 1 } else { -1 },
                _ => rng.range(-86_399, 86_399) as i32,
            }
        };
        let class = k % 4;
        match class {
            0 => {
                // extreme transition times
                m.types = vec![TzType { off: 3600, dst: false, name: "AAA".into() }, TzType { off: 7200, dst: true, name: "BBB".into() }, TzType { off: -3600, dst: false, name: "CCC".into() }];
                let mut ts = vec![i64::MIN + rng.range(0, 3), i64::MIN + 100_000, -(1 << 62), -1, 0, 1 << 62, i64::MAX - 100_000, i64::MAX - rng.range(0, 3)];
                ts.sort();
                ts.dedup();
                m.transitions = ts.into_iter().enumerate().map(|(i, t)| (t, i % 3)).collect();
            }
            1 => {
                // offsets outside (-24h, +24h)
                m.types = (0..3).map(|i| TzType { off: big(&mut rng), dst: i == 1, name: "XYZ".into() }).collect();
                m.transitions = vec![(-1_000_000_000, 1), (0, 2), (1_000_000_000, 0), (2_000_000_000, 1)];
            }
            2 => {
                // 2^16 transitions
                m.types = vec![TzType { off: 0, dst: false, name: "AAA".into() }, TzType { off: 3600, dst: true, name: "BBB".into() }];
                m.transitions = (0..65_536i64).map(|i| (-2_000_000_000 + i * 61_000, (i % 2) as usize)).collect();
            }
            _ => {
                // footer rule with offsets at the edge of what the grammar allows (hour 24) and extreme times
                let std_off = *rng.pick(&[-86_400, 86_400, 86_399, -86_399, 0]);
                let r = Rule { std: TzType { off: std_off, dst: false, name: "SSS".into() }, dst: Some(tz::DstRule { ty: TzType { off: (std_off + 3600).min(86_400), dst: true, name: "DDD".into() }, start: Day::M(3, 2, 0), start_time: if version == 3 { -167 * 3600 } else { 0 }, end: Day::J1(365), end_time: if version == 3 { 167 * 3600 } else { 86_400 } }) };
                m.types = vec![r.std.clone(), r.dst.as_ref().unwrap().ty.clone()];
                m.rule = Some(r);
                m.transitions = vec![(0, 0)];
                fix_last_type(&mut m);
            }
        }
        let bytes = tz::write_tzif(&m, &WriteOpts { version, indicators: false, full_v1: false, footer_override: None });
        loc.eval();
        loc.bucket(b_h);
        loc.nontrivial(hbytes(&bytes));
        let Some(Ok(zone)) = monitored_parse(&mut loc, "hostile-valid-file", &bytes, b_alloc) else { return };
        let mut extra = Vec::new();
        for (t, _) in m.transitions.iter().take(4).chain(m.transitions.iter().rev().take(4)) {
            for d in [-200_000i64, -1, 0, 1, 200_000] {
                extra.push(t.saturating_add(d));
            }
        }
        let desc = format!("class {} v{} offsets {:?} first/last transition {:?}/{:?}", class, version, m.types.iter().map(|t| t.off).collect::<Vec<_>>(), m.transitions.first(), m.transitions.last());
        query_zone_hook(&mut loc, "hostile-valid-file", &zone, &extra, || json!(desc), b_q);
        // public route: Local with TZ pointing at the file
        let path = ctx.work_dir.join(format!("hostile-{}.tzif", k));
        if std::fs::write(&path, &bytes).is_ok() {
            let mut q: Vec<(char, i64)> = Vec::new();
            for u in [min_secs(), -1_000_000_001, -1, 0, 1, 1_500_000_000, 2_100_000_000, 4_102_444_800, max_secs()] {
                q.push(('U', u));
                q.push(('L', u.clamp(min_secs() + 3 * 86_400, max_secs() - 3 * 86_400)));
            }
            match tzchild::run_child(&ctx.work_dir, &format!("hostile-{}", k), Some(&format!(":{}", path.display())), &q) {
                Ok(ans) => {
                    for (a, (kind, v)) in ans.iter().zip(q.iter()) {
                        loc.eval();
                        loc.bucket(b_pub);
                        if let Ans::Panic(msg) = a {
                            let site = msg.rsplit(" at ").next().unwrap_or("?").to_string();
                            loc.violation(
                                &format!("C16/accepted-zone/Local-{}/panic@{}/hostile-valid-file-class-{}", if *kind == 'U' { "from_utc_datetime" } else { "from_local_datetime" }, site, class),
                                json!({"query": [kind.to_string(), v], "zone": desc, "message": msg, "file_hex": hex(&bytes)}),
                            );
                        }
                    }
                }
                Err(e) if e.starts_with(tzchild::SPAWN_FAILED) => rep.harness_error(format!("C16 hostile-zone child: {}", e)),
                Err(e) => loc.violation(&format!("C16/accepted-zone/Local/child-died/hostile-valid-file-class-{}", class), json!({"zone": desc, "error": e})),
            }
            let _ = std::fs::remove_file(&path);
        }
    });
}

// ---- header extremes in a child process ---------------------------------------------------------

fn extreme_case(seed: u64, i: u64) -> Vec<u8> {
    let mut rng = Rng::new(seed, "C16/extremes", i);
    let version = 1 + rng.below(3) as u8;
    let (_, mut b) = small_valid_file(&mut rng, version);
    let l1 = block_layout(&b, 0, 4);
    let hdrs: Vec<usize> = if version == 1 { vec![0] } else { vec![0, l1.end_of_block] };
    let vals = [0u32, 1, 2, 0xffff, 0x1_0000, 0x10_0000, 0x7fff_ffff, 0x8000_0000, 0xffff_fffe, 0xffff_ffff];
    let nf = 1 + rng.below(3);
    for _ in 0..nf {
        let h = *rng.pick(&hdrs);
        let f = rng.below(6) as usize;
        set_u32(&mut b, h + 20 + 4 * f, *rng.pick(&vals));
    }
    if rng.chance(1, 3) {
        let keep = rng.below(b.len() as u64 + 1) as usize;
        b.truncate(keep);
    } else if rng.chance(1, 4) {
        let extra = rng.below(70_000) as usize;
        b.extend(std::iter::repeat(0u8).take(extra));
    }
    b
}

/// `chk --child c16x <seed> <n>`
pub fn child_extremes(args: &[String]) -> i32 {
    let seed: u64 = args.first().and_then(|s| s.parse().ok()).unwrap_or(0);
    let n: u64 = args.get(1).and_then(|s| s.parse().ok()).unwrap_or(0);
    let out = std::io::stdout();
    let mut out = out.lock();
    for i in 0..n {
        let b = extreme_case(seed, i);
        let _ = writeln!(out, "C {}", i);
        let _ = out.flush();
        let r = guard(|| allocmon::measure(|| Zone::from_tz_data(&b)));
        match r {
            Ok((res, st)) => {
                let bound = 64 * b.len() as isize + 65_536;
                if st.peak_live > bound {
                    let _ = writeln!(out, "V {} alloc peak={} max_request={} len={}", i, st.peak_live, st.max_request, b.len());
                }
                if let Ok(z) = res {
                    // an accepted zone must survive a few queries
                    for u in [min_secs(), 0, 2_000_000_000, max_secs()] {
                        if guard(|| z.offset_at(u)).is_err() || tzchild::ndt_of_secs(u).map(|n| guard(|| z.offsets_for_local(n)).is_err()).unwrap_or(false) {
                            let _ = writeln!(out, "V {} query-panic unix={}", i, u);
                        }
                    }
                    let _ = writeln!(out, "A {}", i);
                }
            }
            Err(p) => {
                allocmon::disarm();
                let _ = writeln!(out, "V {} panic {} at {}", i, p.msg.replace('\n', " "), p.site());
            }
        }
    }
    let _ = writeln!(out, "DONE");
    0
}

fn phase_extremes(ctx: &Ctx, rep: &Report) {
    let b = bi("survive_header_extremes_child");
    let n_children = 8usize;
    let per = ctx.n(2_500, 250_000);
    par_shards(rep, ctx.threads, n_children, |c| {
        let mut loc = rep.local();
        let seed = ctx.seed.wrapping_mul(1000).wrapping_add(c as u64);
        let exe = match std::env::current_exe() {
            Ok(e) => e,
            Err(e) => {
                rep.harness_error(format!("current_exe: {}", e));
                return;
            }
        };
        let out = std::process::Command::new(exe).args(["--child", "c16x", &seed.to_string(), &per.to_string()]).output();
        let out = match out {
            Ok(o) => o,
            Err(e) => {
                rep.harness_error(format!("spawn child: {}", e));
                return;
            }
        };
        let mut last_case: Option<u64> = None;
        let mut done = false;
        let mut accepted = 0u64;
        for line in out.stdout.lines().map_while(Result::ok) {
            let mut it = line.splitn(3, ' ');
            match it.next() {
                Some("C") => {
                    last_case = it.next().and_then(|s| s.parse().ok());
                    loc.eval();
                    loc.bucket(b);
                    if let Some(i) = last_case {
                        loc.nontrivial(h2(seed, i));
                    }
                }
                Some("A") => accepted += 1,
                Some("V") => {
                    let i: u64 = it.next().and_then(|s| s.parse().ok()).unwrap_or(0);
                    let what = it.next().unwrap_or("").to_string();
                    let kind = what.split(' ').next().unwrap_or("?").to_string();
                    let site = if kind == "panic" { format!("@{}", what.rsplit(" at ").next().unwrap_or("?")) } else { String::new() };
                    loc.violation(&format!("C16/from_tz_data/{}{}/header-extremes", kind, site), json!({"child_seed": seed, "case": i, "detail": what, "input_hex": hex(&extreme_case(seed, i))}));
                }
                Some("DONE") => done = true,
                _ => {}
            }
        }
        rep.add_extra_count("header_extreme_cases_accepted", accepted);
        if !done {
            match last_case {
                Some(i) => loc.violation(
                    "C16/from_tz_data/process-abort/header-extremes",
                    json!({"child_seed": seed, "case": i, "status": format!("{:?}", out.status), "stderr_tail": String::from_utf8_lossy(&out.stderr).chars().rev().take(300).collect::<String>().chars().rev().collect::<String>(), "input_hex": hex(&extreme_case(seed, i))}),
                ),
                None => rep.harness_error(format!("extremes child produced no output: {:?}", out.status)),
            }
        }
    });
}

pub fn run(ctx: &Ctx) -> Outcome {
    let rep = Report::new("C16", B, FLOOR);
    if let Err(e) = tz::self_test() {
        rep.harness_error(e);
        return rep.finish(ctx, "self-test failed", &[]);
    }
    phase_accept_files(ctx, &rep);
    phase_accept_posix(ctx, &rep);
    phase_system_files(ctx, &rep);
    phase_reject(ctx, &rep);
    phase_survive(ctx, &rep);
    phase_hostile_valid(ctx, &rep);
    phase_extremes(ctx, &rep);
    let _ = Tier::Quick;
    rep.finish(
        ctx,
        "accept: TZif files written by the reference writer from random conforming models (v1-v3, 0-3000 transitions, 1-255 types, indicators, leap records, footer absent/empty/fixed/alternate, minimal or full v1 block) and TZ strings printed from random rule models must be accepted with a structural dump equal to the model; every system zoneinfo file likewise (vs the reference reader). reject: per valid base file every truncation, magic/version change, each header count changed (confirmed invalid by the strict reference reader), swapped/equal transitions, out-of-bounds type/abbreviation indices, missing NUL, isdst/utoff out of domain, malformed footers, trailing bytes after v1; 46 invalid TZ strings. survive: random bytes, 1-4 random edits of valid files (bit flips, extremes in aligned u32/i64 fields, insert/delete/truncate), random and mutated TZ strings, header-count extremes in child processes; every call under the panic monitor and the counting allocator (peak live bytes <= 64*len + 64 KiB). Zones accepted along the way and hostile-but-valid zones (i64-extreme transition times, offsets beyond 24 h, 65536 transitions, edge footers) are queried through the hook and through chrono::Local in child processes. Non-trivial: every generated input (all are distinct by content hash)",
        &["R-tz writer/reader/POSIX model (self-tested each run)", "a mutated file that is coincidentally still well-formed for the strict reference reader is not expected to be rejected", "version byte '4' is not judged"],
    )
}
