//! Verification harness for chrono: runtime monitors + reference oracles.
pub mod mon;
pub mod props;
pub mod refcal;
pub mod rng;
