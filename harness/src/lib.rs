//! Verification harness for chrono: runtime monitors + reference oracles.
pub mod allocmon;
pub mod gen;
pub mod mon;
pub mod props;
pub mod refcal;
pub mod refinst;
pub mod reftz;
pub mod rng;
pub mod zones;

#[global_allocator]
static GLOBAL: allocmon::CountingAlloc = allocmon::CountingAlloc;
