//! Dispatcher: chk <Cxx> --tier quick|thorough --seed N --out FILE [--replay-sig SIG]
//! Exit: 0 held, 1 violation (unlisted), 2 inconclusive.

use serde_json::{json, Value};
use std::path::PathBuf;
use verif_harness::mon::{self, Ctx, Known, Tier};
use verif_harness::props;

fn main() {
    let args: Vec<String> = std::env::args().collect();
    if args.len() >= 3 && args[1] == "--child" {
        mon::install_panic_hook();
        std::process::exit(props::child(&args[2], &args[3..]));
    }
    if args.len() < 2 {
        eprintln!("usage: chk <Cxx> --tier T --seed N --out FILE");
        std::process::exit(3);
    }
    let prop = args[1].clone();
    let mut tier = Tier::Quick;
    let mut seed = 0u64;
    let mut out: Option<PathBuf> = None;
    let mut replay_sig = None;
    let mut i = 2;
    while i < args.len() {
        match args[i].as_str() {
            "--tier" => {
                tier = if args[i + 1] == "thorough" { Tier::Thorough } else { Tier::Quick };
                i += 1;
            }
            "--seed" => {
                seed = args[i + 1].parse().unwrap_or(0);
                i += 1;
            }
            "--out" => {
                out = Some(PathBuf::from(&args[i + 1]));
                i += 1;
            }
            "--replay-sig" => {
                replay_sig = Some(args[i + 1].clone());
                i += 1;
            }
            _ => {}
        }
        i += 1;
    }
    let verif_root = std::env::var("VERIF_ROOT").unwrap_or_else(|_| "/verif".to_string());
    let verif_root = PathBuf::from(verif_root);
    let threads = std::env::var("VERIF_THREADS").ok().and_then(|s| s.parse().ok()).unwrap_or_else(|| {
        std::thread::available_parallelism().map(|n| n.get()).unwrap_or(8)
    });
    let scale_pct = std::env::var("VERIF_SCALE").ok().and_then(|s| s.parse().ok()).unwrap_or(100);
    let work_dir = verif_root.join("work").join(format!("{}-{}-{}", prop, mon::lane(), std::process::id()));
    let ctx = Ctx { prop: prop.clone(), tier, seed, threads, work_dir: work_dir.clone(), replay_sig: replay_sig.clone(), scale_pct };
    mon::install_panic_hook();

    let outcome = match props::run(&ctx) {
        Some(o) => o,
        None => {
            println!("INCONCLUSIVE property={} reason=no-such-check", prop);
            std::process::exit(2);
        }
    };
    let _ = std::fs::remove_dir_all(&work_dir);

    let known = Known::load(&verif_root.join("known_findings.json"));
    let mut n_unlisted = 0u64;
    let mut known_matched = Vec::new();
    let mut vio_json = Vec::new();
    let rev = repo_rev();
    for v in &outcome.violations {
        if let Some(rs) = &replay_sig {
            if &v.signature != rs {
                continue;
            }
        }
        if let Some(desc) = known.matches(&prop, &v.signature) {
            println!("KNOWN-FINDING: property={} {} ({}; {} occurrences in this run)", prop, v.signature, desc, v.count);
            known_matched.push(json!({"signature": v.signature, "count": v.count}));
            continue;
        }
        n_unlisted += 1;
        let h = mon::hstr(&v.signature);
        let dir = verif_root.join("replays");
        let _ = std::fs::create_dir_all(&dir);
        let path = dir.join(format!("{}-{:016x}.json", prop, h));
        let rec = json!({
            "property": prop, "signature": v.signature, "lane": outcome.lane, "seed": seed,
            "tier": tier.name(), "occurrences": v.count, "witness": v.witness, "chrono_rev": rev,
        });
        let _ = std::fs::write(&path, serde_json::to_string_pretty(&rec).unwrap());
        println!("VIOLATION property={} replay={}", prop, path.display());
        println!("  signature: {}", v.signature);
        let w = serde_json::to_string(&v.witness).unwrap_or_default();
        println!("  witness: {}", if w.len() > 600 { &w[..600] } else { &w });
        vio_json.push(json!({"signature": v.signature, "count": v.count, "replay": path.display().to_string()}));
    }
    for e in &outcome.harness_errors {
        println!("HARNESS-ERROR property={} {}", prop, e);
    }
    let inconclusive = !outcome.harness_errors.is_empty() || (!outcome.missing_floor.is_empty() && replay_sig.is_none());
    if !outcome.missing_floor.is_empty() && replay_sig.is_none() {
        println!("INCONCLUSIVE property={} lane={} coverage floor not observed: {:?}", prop, outcome.lane, outcome.missing_floor);
    }
    let verdict = if n_unlisted > 0 {
        "violated"
    } else if inconclusive {
        "inconclusive"
    } else {
        "held"
    };
    let mut cov = outcome.coverage.clone();
    cov.insert("known_findings_matched".into(), Value::Array(known_matched));
    cov.insert("violation_signatures".into(), Value::Array(vio_json));
    cov.insert("harness_errors".into(), json!(outcome.harness_errors));
    let part = json!({
        "property_id": prop, "tier": tier.name(), "seed": seed, "lane": outcome.lane,
        "verdict": verdict, "wall_s": outcome.wall_s, "violations": n_unlisted,
        "coverage": Value::Object(cov), "assumptions": outcome.assumptions,
    });
    if let Some(p) = out {
        if let Some(d) = p.parent() {
            let _ = std::fs::create_dir_all(d);
        }
        std::fs::write(&p, serde_json::to_string_pretty(&part).unwrap()).expect("write partial evidence");
    }
    println!(
        "SUMMARY property={} lane={} tier={} seed={} verdict={} evaluations={} distinct_nontrivial={} wall_s={:.1}",
        prop, outcome.lane, tier.name(), seed, verdict,
        part["coverage"]["evaluations"], part["coverage"]["distinct_nontrivial"], outcome.wall_s
    );
    std::process::exit(match verdict {
        "violated" => 1,
        "inconclusive" => 2,
        _ => 0,
    });
}

fn repo_rev() -> String {
    let out = std::process::Command::new("git").args(["-C", "/repo", "describe", "--always", "--dirty=+dirty"]).output();
    match out {
        Ok(o) => String::from_utf8_lossy(&o.stdout).trim().to_string(),
        Err(_) => "unknown".into(),
    }
}
