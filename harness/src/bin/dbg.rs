use verif_harness::reftz as tz;
use verif_harness::rng::Rng;
fn main() {
    let a: Vec<String> = std::env::args().collect();
    let seed: u64 = a[1].parse().unwrap();
    let k: u64 = a[2].parse().unwrap();
    let l: i64 = a[3].parse().unwrap();
    let mut rng = Rng::new(seed, "C05/synth", k);
    let version = 1 + rng.below(3) as u8;
    let n_trans = match rng.below(6) { 0 => 0, 1 => rng.below(4) as usize, 2 => rng.below(2000) as usize, _ => rng.below(60) as usize };
    let with_rule = version >= 2 && rng.chance(2, 3);
    let mut model = tz::random_model(&mut rng, n_trans, with_rule, version == 3, version == 1);
    if version < 3 {
        if let Some(r) = &mut model.rule {
            if let Some(d) = &mut r.dst { d.start_time = d.start_time.clamp(0, 86_400); d.end_time = d.end_time.clamp(0, 86_400); }
            if let Some(last) = model.transitions.last().copied() {
                let ty = model.rule.as_ref().unwrap().type_at(last.0).clone();
                let pos = match model.types.iter().position(|t| *t == ty) { Some(p) => p, None => { model.types.push(ty); model.types.len() - 1 } };
                let n = model.transitions.len(); model.transitions[n - 1].1 = pos;
            }
        }
    }
    let bytes = tz::write_tzif(&model, &tz::WriteOpts { version, indicators: rng.chance(1, 2), full_v1: rng.chance(1, 2), footer_override: None });
    let (_, m, _) = tz::read_tzif(&bytes).unwrap();
    println!("version {} transitions {} rule {:?}", version, m.transitions.len(), m.rule.as_ref().map(|r| r.print(true)));
    let n = m.transitions.len();
    for t in m.transitions.iter().skip(n.saturating_sub(3)) { println!("  T {} -> type {} off {}", t.0, t.1, m.types[t.1].off); }
    let offs = m.all_offsets();
    let mx = offs.iter().map(|o| (*o as i64).abs()).max().unwrap();
    println!("l={} cands {:?} interacting {} exempt {:?}", l, m.local_candidates(l, &offs), m.interacting_near(l, mx), m.exempt_local(l, mx));
    println!("transitions_in {:?}", m.transitions_in(l - 3 * mx - 3, l + 3 * mx + 3));
    if let Some(r) = &m.rule { let y = tz::year_of_unix(l); for yy in y-1..=y+1 { println!("  events {} {:?} ok {}", yy, r.events(yy), r.year_ok(yy)); } }
}
