//! Miri lane (thorough tier of C15 and C16): a small single-threaded workload over the two unsafe
//! sites of chrono on this platform — `NonZeroI32::new_unchecked` in `NaiveDate::from_yof`
//! (reached by every constructor, `with_*`, `succ/pred`, `add_days`) and `from_utf8_unchecked` in
//! `TimeZoneName::as_ref` (reached by the structural dump of a parsed zone) — plus the
//! byte-slicing TZif parser. Miri reports undefined behaviour, out-of-bounds and invalid values.
//!
//! usage: miri_lane <C15|C16> <seed> <ops>

use chrono::{Datelike, Days, Months, NaiveDate, Weekday};
use verif_harness::reftz as tz;
use verif_harness::rng::Rng;

fn c15(seed: u64, ops: u64) -> u64 {
    let mut rng = Rng::new(seed, "miri/C15", 0);
    let years: [i32; 14] = [i32::MIN, -262_144, -262_143, -262_142, -1, 0, 1, 4, 1970, 2000, 262_141, 262_142, 262_143, i32::MAX];
    let smalls: [u32; 16] = [0, 1, 2, 12, 13, 28, 29, 30, 31, 32, 53, 54, 365, 366, 367, u32::MAX];
    let mut n = 0u64;
    let mut acc = 0i64;
    let mut sink = |d: Option<NaiveDate>| {
        if let Some(d) = d {
            acc = acc.wrapping_add(d.num_days_from_ce() as i64 + d.ordinal() as i64 + d.weekday().num_days_from_monday() as i64 + d.iso_week().week() as i64);
        }
    };
    while n < ops {
        let y = if rng.chance(1, 2) { *rng.pick(&years) } else { rng.range(-262_200, 262_200) as i32 };
        let (a, b) = (*rng.pick(&smalls), *rng.pick(&smalls));
        sink(NaiveDate::from_ymd_opt(y, a, b));
        sink(NaiveDate::from_yo_opt(y, a));
        sink(NaiveDate::from_isoywd_opt(y, a, Weekday::try_from((b % 7) as u8).unwrap()));
        sink(NaiveDate::from_num_days_from_ce_opt(y.wrapping_mul(365)));
        sink(NaiveDate::from_weekday_of_month_opt(y, a, Weekday::Sun, b as u8));
        n += 5;
        if let Some(d) = NaiveDate::from_ymd_opt(y.clamp(-262_143, 262_142), 1 + a % 12, 1 + b % 28) {
            sink(d.with_year(y));
            sink(d.with_month(a));
            sink(d.with_day(b));
            sink(d.with_ordinal(a));
            sink(d.with_day0(b));
            sink(d.succ_opt());
            sink(d.pred_opt());
            sink(d.checked_add_days(Days::new(b as u64 * 1_000_003)));
            sink(d.checked_sub_days(Days::new(a as u64 * 999_983)));
            sink(d.checked_add_months(Months::new(a.wrapping_mul(7919))));
            sink(d.checked_sub_months(Months::new(b)));
            sink(d.week(Weekday::Wed).checked_first_day());
            sink(d.week(Weekday::Wed).checked_last_day());
            n += 13;
        }
        for d in [NaiveDate::MIN, NaiveDate::MAX] {
            sink(d.succ_opt());
            sink(d.pred_opt());
            sink(d.checked_add_days(Days::new(a as u64)));
            sink(d.checked_sub_days(Days::new(b as u64)));
            n += 4;
        }
    }
    println!("miri C15: {} operations, checksum {}", n, acc);
    n
}

fn c16(seed: u64, ops: u64) -> u64 {
    use chrono::__verif::Zone;
    let mut rng = Rng::new(seed, "miri/C16", 0);
    let mut n = 0u64;
    let mut accepted = 0u64;
    let mut names = 0u64;
    while n < ops {
        let version = 1 + rng.below(3) as u8;
        let n_trans = rng.below(12) as usize;
        let with_rule = version >= 2 && rng.chance(1, 2);
        let m = tz::random_model(&mut rng, n_trans, with_rule, version == 3, version == 1);
        let mut bytes = tz::write_tzif(&m, &tz::WriteOpts { version, indicators: rng.chance(1, 2), full_v1: rng.chance(1, 2), footer_override: None });
        // half of the inputs are damaged
        if rng.chance(1, 2) {
            for _ in 0..1 + rng.below(3) {
                if bytes.is_empty() {
                    break;
                }
                let p = rng.below(bytes.len() as u64) as usize;
                match rng.below(5) {
                    0 => bytes[p] ^= 1 << rng.below(8),
                    1 => bytes.truncate(p),
                    2 => bytes[p] = 0xff,
                    3 => {
                        bytes.remove(p);
                    }
                    _ => bytes.insert(p, rng.next() as u8),
                }
            }
        }
        n += 1;
        if let Ok(z) = Zone::from_tz_data(&bytes) {
            accepted += 1;
            let d = z.dump();
            for t in &d.types {
                if let (Some(s), Some(b)) = (&t.name, &t.name_bytes) {
                    assert_eq!(std::str::from_utf8(b).ok(), Some(s.as_str()));
                    names += 1;
                }
            }
            let _ = z.offset_at(0);
            let _ = z.offset_at(2_000_000_000);
        }
        if n % 7 == 0 {
            let r = tz::random_rule(&mut rng, true, false).print(rng.chance(1, 2));
            if let Ok(z) = Zone::from_tz_string(&r, true) {
                let d = z.dump();
                names += d.types.len() as u64;
                let _ = z.offset_at(1_700_000_000);
            }
        }
    }
    println!("miri C16: {} inputs parsed, {} accepted, {} zone names read through as_ref()", n, accepted, names);
    n
}

fn main() {
    let a: Vec<String> = std::env::args().collect();
    let which = a.get(1).map(|s| s.as_str()).unwrap_or("C15");
    let seed: u64 = a.get(2).and_then(|s| s.parse().ok()).unwrap_or(0);
    let ops: u64 = a.get(3).and_then(|s| s.parse().ok()).unwrap_or(2000);
    match which {
        "C16" => c16(seed, ops),
        _ => c15(seed, ops),
    };
}
