//! R-tz: independent zone oracle. A zone *model*, an evaluator "by definition" (offset at an
//! instant; instants for a wall time by brute force over the zone's offsets), a model-driven TZif
//! writer (v1–v3), an independent TZif reader, and a POSIX TZ rule model/printer/parser.
//! Written from RFC 8536 and POSIX; shares nothing with chrono's tz_info.

use crate::refcal as rc;
use crate::rng::Rng;

#[derive(Clone, Debug, PartialEq, Eq)]
pub struct TzType {
    /// seconds east of UTC
    pub off: i32,
    pub dst: bool,
    pub name: String,
}

#[derive(Clone, Copy, Debug, PartialEq, Eq)]
pub enum Day {
    /// Jn, 1..=365, Feb 29 never counted
    J1(u16),
    /// n, 0..=365, Feb 29 counted
    J0(u16),
    /// Mm.w.d: month 1..=12, week 1..=5 (5 = last), weekday 0 = Sunday
    M(u8, u8, u8),
}

#[derive(Clone, Debug, PartialEq, Eq)]
pub struct DstRule {
    pub ty: TzType,
    pub start: Day,
    /// seconds after local (standard time) midnight of the start day
    pub start_time: i32,
    pub end: Day,
    /// seconds after local (daylight time) midnight of the end day
    pub end_time: i32,
}

#[derive(Clone, Debug, PartialEq, Eq)]
pub struct Rule {
    pub std: TzType,
    pub dst: Option<DstRule>,
}

#[derive(Clone, Debug, PartialEq, Eq, Default)]
pub struct ZoneModel {
    /// (transition time, type index), strictly ascending
    pub transitions: Vec<(i64, usize)>,
    pub types: Vec<TzType>,
    /// (occurrence, correction)
    pub leaps: Vec<(i64, i32)>,
    pub rule: Option<Rule>,
}

pub fn unix_day_of(y: i64, m: i64, d: i64) -> i64 {
    rc::day_number(y, m, d) - rc::UNIX_EPOCH_DAY
}

/// civil year of a unix time
pub fn year_of_unix(u: i64) -> i64 {
    rc::yo_from_days(u.div_euclid(86_400) + rc::UNIX_EPOCH_DAY).0
}

impl Day {
    /// (month, day) of this rule day in year y
    pub fn date_in(&self, y: i64) -> (i64, i64) {
        match *self {
            Day::J1(n) => rc::md_from_ordinal(1999, n as i64), // any common year: Feb 29 is never counted
            Day::J0(n) => {
                let o = n as i64 + 1;
                if o > rc::days_in_year(y) {
                    // day 365 (zero-based) of a common year does not exist: POSIX leaves it to the
                    // implementation; treat as Jan 1 of next year by ordinal overflow (callers avoid it)
                    (12, 32)
                } else {
                    rc::md_from_ordinal(y, o)
                }
            }
            Day::M(m, w, d) => {
                let m = m as i64;
                let first = rc::day_number(y, m, 1);
                // weekday of the first of the month, 0 = Sunday
                let wd_first = (rc::weekday(first) + 1) % 7;
                let mut day = 1 + (d as i64 - wd_first).rem_euclid(7) + (w as i64 - 1) * 7;
                while day > rc::days_in_month(y, m) {
                    day -= 7;
                }
                (m, day)
            }
        }
    }
    /// unix day number of this rule day in year y
    pub fn unix_day_in(&self, y: i64) -> i64 {
        let (m, d) = self.date_in(y);
        if d > rc::days_in_month(y, m) {
            unix_day_of(y, 12, 31) + 1
        } else {
            unix_day_of(y, m, d)
        }
    }
    pub fn print(&self) -> String {
        match *self {
            Day::J1(n) => format!("J{}", n),
            Day::J0(n) => format!("{}", n),
            Day::M(m, w, d) => format!("M{}.{}.{}", m, w, d),
        }
    }
}

impl Rule {
    pub fn fixed(std: TzType) -> Rule {
        Rule { std, dst: None }
    }
    /// (dst start instant, dst end instant) of year y in unix time
    pub fn events(&self, y: i64) -> Option<(i64, i64)> {
        let d = self.dst.as_ref()?;
        let s = d.start.unix_day_in(y) * 86_400 + d.start_time as i64 - self.std.off as i64;
        let e = d.end.unix_day_in(y) * 86_400 + d.end_time as i64 - d.ty.off as i64;
        Some((s, e))
    }
    /// all rule events of years y-1..=y+1: (instant, is_start), ascending
    pub fn events_around(&self, y: i64) -> Vec<(i64, bool)> {
        let mut v = Vec::new();
        for yy in y - 1..=y + 1 {
            if let Some((s, e)) = self.events(yy) {
                v.push((s, true));
                v.push((e, false));
            }
        }
        v.sort();
        v
    }
    pub fn type_at(&self, u: i64) -> &TzType {
        let Some(d) = self.dst.as_ref() else { return &self.std };
        let ev = self.events_around(year_of_unix(u));
        let mut in_dst = match ev.first() {
            Some((_, true)) => false,
            Some((_, false)) => true,
            None => false,
        };
        for (t, is_start) in ev {
            if t <= u {
                in_dst = is_start;
            } else {
                break;
            }
        }
        if in_dst {
            &d.ty
        } else {
            &self.std
        }
    }
    /// Does year y satisfy the property's restriction: both rule transitions lie more than one day
    /// inside the calendar year (in UTC and in both wall clocks) and are at least two days apart?
    pub fn year_ok(&self, y: i64) -> bool {
        let Some(d) = self.dst.as_ref() else { return true };
        if let Day::J0(n) = d.start {
            if n as i64 + 1 > rc::days_in_year(y) {
                return false;
            }
        }
        if let Day::J0(n) = d.end {
            if n as i64 + 1 > rc::days_in_year(y) {
                return false;
            }
        }
        let Some((s, e)) = self.events(y) else { return true };
        let lo = unix_day_of(y, 1, 1) * 86_400 + 86_400;
        let hi = (unix_day_of(y, 12, 31) + 1) * 86_400 - 86_400;
        for t in [s, e] {
            for o in [0i64, self.std.off as i64, d.ty.off as i64] {
                let w = t + o;
                if w <= lo || w >= hi {
                    return false;
                }
            }
        }
        (s - e).abs() >= 2 * 86_400
    }
    pub fn offsets(&self) -> Vec<i32> {
        let mut v = vec![self.std.off];
        if let Some(d) = &self.dst {
            v.push(d.ty.off);
        }
        v
    }
    /// POSIX TZ string of this rule. `explicit` forces printing defaults.
    pub fn print(&self, explicit: bool) -> String {
        let mut s = String::new();
        s.push_str(&print_name(&self.std.name));
        s.push_str(&print_hms(-(self.std.off as i64), false));
        if let Some(d) = &self.dst {
            s.push_str(&print_name(&d.ty.name));
            if explicit || d.ty.off != self.std.off + 3600 {
                s.push_str(&print_hms(-(d.ty.off as i64), false));
            }
            s.push(',');
            s.push_str(&d.start.print());
            if explicit || d.start_time != 7200 {
                s.push('/');
                s.push_str(&print_hms(d.start_time as i64, false));
            }
            s.push(',');
            s.push_str(&d.end.print());
            if explicit || d.end_time != 7200 {
                s.push('/');
                s.push_str(&print_hms(d.end_time as i64, false));
            }
        }
        s
    }
}

fn print_name(n: &str) -> String {
    if n.len() >= 3 && n.bytes().all(|b| b.is_ascii_alphabetic()) {
        n.to_string()
    } else {
        format!("<{}>", n)
    }
}

/// [+-]h[:mm[:ss]]
pub fn print_hms(v: i64, plus: bool) -> String {
    let (sign, a) = if v < 0 { ("-", -v) } else if plus { ("+", v) } else { ("", v) };
    let (h, m, s) = (a / 3600, a / 60 % 60, a % 60);
    if s != 0 {
        format!("{}{}:{:02}:{:02}", sign, h, m, s)
    } else if m != 0 {
        format!("{}{}:{:02}", sign, h, m)
    } else {
        format!("{}{}", sign, h)
    }
}

impl ZoneModel {
    pub fn type_at(&self, u: i64) -> &TzType {
        match self.transitions.last() {
            None => match &self.rule {
                Some(r) => r.type_at(u),
                None => &self.types[0],
            },
            Some(&(last_t, last_ty)) => {
                if u >= last_t {
                    match &self.rule {
                        Some(r) => r.type_at(u),
                        None => &self.types[last_ty],
                    }
                } else {
                    // last transition at or before u, by definition
                    let idx = self.transitions.partition_point(|t| t.0 <= u);
                    if idx == 0 {
                        &self.types[0]
                    } else {
                        &self.types[self.transitions[idx - 1].1]
                    }
                }
            }
        }
    }
    pub fn offset_at(&self, u: i64) -> i32 {
        self.type_at(u).off
    }
    pub fn all_offsets(&self) -> Vec<i32> {
        let mut v: Vec<i32> = self.types.iter().map(|t| t.off).collect();
        if let Some(r) = &self.rule {
            v.extend(r.offsets());
        }
        v.sort();
        v.dedup();
        v
    }
    /// Brute force: all instants u with u + offset_at(u) == l, ascending, with their offsets.
    pub fn local_candidates(&self, l: i64, offsets: &[i32]) -> Vec<(i64, i32)> {
        let mut v = Vec::new();
        for &o in offsets {
            let u = l - o as i64;
            if self.offset_at(u) == o {
                v.push((u, o));
            }
        }
        v.sort();
        v
    }
    /// Transitions (T, offset before, offset after) with T in [lo, hi]: table transitions and, after
    /// the last table transition, rule events.
    pub fn transitions_in(&self, lo: i64, hi: i64) -> Vec<(i64, i32, i32)> {
        let mut out = Vec::new();
        let a = self.transitions.partition_point(|t| t.0 < lo);
        let b = self.transitions.partition_point(|t| t.0 <= hi);
        for i in a..b {
            let t = self.transitions[i].0;
            let before = if i == 0 { self.types[0].off } else { self.types[self.transitions[i - 1].1].off };
            // `after` by definition: the offset in force at T (covers the rule taking over at the last T)
            out.push((t, before, self.offset_at(t)));
        }
        if let Some(r) = &self.rule {
            if r.dst.is_some() {
                let last_t = self.transitions.last().map(|t| t.0);
                let (ylo, yhi) = (year_of_unix(lo), year_of_unix(hi));
                if yhi - ylo <= 4 {
                    for y in ylo - 1..=yhi + 1 {
                        if let Some((s, e)) = r.events(y) {
                            for t in [s, e] {
                                if t >= lo && t <= hi && last_t.map(|lt| t > lt).unwrap_or(true) && t > i64::MIN {
                                    out.push((t, self.offset_at(t - 1), self.offset_at(t)));
                                }
                            }
                        }
                    }
                }
            }
        }
        out.sort();
        out
    }
    /// The property's exemption: wall second l is *the single boundary second* of a gap or fold,
    /// i.e. the wall reading T + offset_before of the transition instant itself (the first skipped
    /// second of a gap: "strictly inside" excludes it; the second right after a repeated interval).
    /// The other edge, T + offset_after, is judged exactly.
    pub fn exempt_local(&self, l: i64, max_abs_off: i64) -> Option<(i32, i32)> {
        for (t, p, a) in self.transitions_in(l - max_abs_off - 1, l + max_abs_off + 1) {
            if p != a && l == t + p as i64 {
                return Some((p, a));
            }
        }
        None
    }
    /// Are there, near wall second l, two consecutive transitions closer together than the sum of
    /// their offset changes (so that their gaps/folds overlap on the wall clock)?
    pub fn interacting_near(&self, l: i64, max_abs_off: i64) -> bool {
        let (lo, hi) = (l.saturating_sub(3 * max_abs_off + 3), l.saturating_add(3 * max_abs_off + 3));
        let mut w = self.transitions_in(lo, hi);
        // Rule events at or before the last table transition are not in force, but a lookup that
        // consults the rule for every wall time after the table sees their gaps/folds too: they
        // interact with the last table transition in the same way.
        if let (Some(r), Some(last)) = (&self.rule, self.transitions.last()) {
            if let Some(d) = &r.dst {
                let (ylo, yhi) = (year_of_unix(lo.max(-8_000_000_000_000)), year_of_unix(hi.min(8_000_000_000_000)));
                if yhi - ylo <= 4 {
                    for y in ylo - 1..=yhi + 1 {
                        if let Some((s, e)) = r.events(y) {
                            if s >= lo && s <= hi && s <= last.0 {
                                w.push((s, r.std.off, d.ty.off));
                            }
                            if e >= lo && e <= hi && e <= last.0 {
                                w.push((e, d.ty.off, r.std.off));
                            }
                        }
                    }
                    w.sort();
                }
            }
        }
        w.windows(2).any(|p| {
            let d0 = (p[0].2 as i64 - p[0].1 as i64).abs();
            let d1 = (p[1].2 as i64 - p[1].1 as i64).abs();
            (d0 != 0 || d1 != 0) && p[1].0 - p[0].0 <= d0 + d1 + 2
        })
    }
    pub fn has_leaps(&self) -> bool {
        !self.leaps.is_empty()
    }
}

// ------------------------------------------------------------------------------------------------
// TZif writer
// ------------------------------------------------------------------------------------------------

#[derive(Clone, Debug)]
pub struct WriteOpts {
    /// 1, 2 or 3
    pub version: u8,
    /// write std/wall + UT/local indicator arrays
    pub indicators: bool,
    /// v2+: v1 block carries the 32-bit representable data (true) or is minimal (false)
    pub full_v1: bool,
    /// v2+: footer text override (None = derive from model.rule; Some("") = empty footer)
    pub footer_override: Option<String>,
}

fn abbrev_table(types: &[TzType]) -> (Vec<u8>, Vec<u8>) {
    // returns (chars, index per type); shares identical names
    let mut chars: Vec<u8> = Vec::new();
    let mut idx = Vec::new();
    let mut seen: Vec<(String, u8)> = Vec::new();
    for t in types {
        if let Some((_, i)) = seen.iter().find(|(n, _)| *n == t.name) {
            idx.push(*i);
        } else {
            let i = chars.len() as u8;
            chars.extend_from_slice(t.name.as_bytes());
            chars.push(0);
            seen.push((t.name.clone(), i));
            idx.push(i);
        }
    }
    (chars, idx)
}

fn write_block(out: &mut Vec<u8>, version: u8, m: &ZoneModel, time64: bool, indicators: bool) {
    let (chars, idx) = abbrev_table(&m.types);
    let trans: Vec<(i64, usize)> = if time64 { m.transitions.clone() } else { m.transitions.iter().copied().filter(|t| t.0 >= i32::MIN as i64 && t.0 <= i32::MAX as i64).collect() };
    let leaps: Vec<(i64, i32)> = if time64 { m.leaps.clone() } else { m.leaps.iter().copied().filter(|t| t.0 >= i32::MIN as i64 && t.0 <= i32::MAX as i64).collect() };
    out.extend_from_slice(b"TZif");
    out.push(match version {
        1 => 0,
        2 => b'2',
        _ => b'3',
    });
    out.extend_from_slice(&[0u8; 15]);
    let ind = if indicators { m.types.len() as u32 } else { 0 };
    for c in [ind, ind, leaps.len() as u32, trans.len() as u32, m.types.len() as u32, chars.len() as u32] {
        out.extend_from_slice(&c.to_be_bytes());
    }
    for t in &trans {
        if time64 {
            out.extend_from_slice(&t.0.to_be_bytes());
        } else {
            out.extend_from_slice(&(t.0 as i32).to_be_bytes());
        }
    }
    for t in &trans {
        out.push(t.1 as u8);
    }
    for (i, t) in m.types.iter().enumerate() {
        out.extend_from_slice(&t.off.to_be_bytes());
        out.push(t.dst as u8);
        out.push(idx[i]);
    }
    out.extend_from_slice(&chars);
    for l in &leaps {
        if time64 {
            out.extend_from_slice(&l.0.to_be_bytes());
        } else {
            out.extend_from_slice(&(l.0 as i32).to_be_bytes());
        }
        out.extend_from_slice(&l.1.to_be_bytes());
    }
    if indicators {
        // standard/wall then UT/local; (std=0, ut=1) is the forbidden pair, so write std >= ut
        for i in 0..m.types.len() {
            out.push((i % 2) as u8);
        }
        for i in 0..m.types.len() {
            out.push(if i % 2 == 1 && i % 4 == 1 { 1 } else { 0 });
        }
    }
}

/// Serialise a model. For version 1 the transitions must fit i32 and no rule is carried.
pub fn write_tzif(m: &ZoneModel, o: &WriteOpts) -> Vec<u8> {
    let mut out = Vec::new();
    if o.version == 1 {
        write_block(&mut out, 1, m, false, o.indicators);
        return out;
    }
    if o.full_v1 {
        write_block(&mut out, o.version, m, false, o.indicators);
    } else {
        let minimal = ZoneModel { transitions: vec![], types: vec![m.types[0].clone()], leaps: vec![], rule: None };
        write_block(&mut out, o.version, &minimal, false, false);
    }
    write_block(&mut out, o.version, m, true, o.indicators);
    out.push(b'\n');
    match &o.footer_override {
        Some(f) => out.extend_from_slice(f.as_bytes()),
        None => {
            if let Some(r) = &m.rule {
                out.extend_from_slice(r.print(false).as_bytes());
            }
        }
    }
    out.push(b'\n');
    out
}

// ------------------------------------------------------------------------------------------------
// TZif reader (independent)
// ------------------------------------------------------------------------------------------------

struct Rd<'a> {
    b: &'a [u8],
    p: usize,
}

impl<'a> Rd<'a> {
    fn take(&mut self, n: usize) -> Result<&'a [u8], String> {
        if self.p.checked_add(n).map(|e| e > self.b.len()).unwrap_or(true) {
            return Err("truncated".into());
        }
        let s = &self.b[self.p..self.p + n];
        self.p += n;
        Ok(s)
    }
    fn u32(&mut self) -> Result<u32, String> {
        let s = self.take(4)?;
        Ok(u32::from_be_bytes([s[0], s[1], s[2], s[3]]))
    }
}

struct Hdr {
    version: u8,
    isut: usize,
    isstd: usize,
    leap: usize,
    time: usize,
    typ: usize,
    chr: usize,
}

fn read_hdr(r: &mut Rd) -> Result<Hdr, String> {
    if r.take(4)? != b"TZif" {
        return Err("magic".into());
    }
    let v = r.take(1)?[0];
    let version = match v {
        0 => 1,
        b'2' => 2,
        b'3' => 3,
        b'4' => 4,
        _ => return Err("version".into()),
    };
    r.take(15)?;
    Ok(Hdr { version, isut: r.u32()? as usize, isstd: r.u32()? as usize, leap: r.u32()? as usize, time: r.u32()? as usize, typ: r.u32()? as usize, chr: r.u32()? as usize })
}

fn read_block(r: &mut Rd, h: &Hdr, ts: usize) -> Result<ZoneModel, String> {
    let mut times = Vec::new();
    for _ in 0..h.time {
        let s = r.take(ts)?;
        let v = if ts == 4 { i32::from_be_bytes([s[0], s[1], s[2], s[3]]) as i64 } else { i64::from_be_bytes([s[0], s[1], s[2], s[3], s[4], s[5], s[6], s[7]]) };
        times.push(v);
    }
    let idxs = r.take(h.time)?.to_vec();
    let mut raw_types = Vec::new();
    for _ in 0..h.typ {
        let s = r.take(6)?;
        raw_types.push((i32::from_be_bytes([s[0], s[1], s[2], s[3]]), s[4], s[5]));
    }
    let chars = r.take(h.chr)?.to_vec();
    let mut leaps = Vec::new();
    for _ in 0..h.leap {
        let s = r.take(ts)?;
        let v = if ts == 4 { i32::from_be_bytes([s[0], s[1], s[2], s[3]]) as i64 } else { i64::from_be_bytes([s[0], s[1], s[2], s[3], s[4], s[5], s[6], s[7]]) };
        let c = r.take(4)?;
        leaps.push((v, i32::from_be_bytes([c[0], c[1], c[2], c[3]])));
    }
    r.take(h.isstd)?;
    r.take(h.isut)?;
    let mut types = Vec::new();
    for (off, dst, ci) in raw_types {
        if dst > 1 {
            return Err("isdst".into());
        }
        if off == i32::MIN {
            return Err("utoff".into());
        }
        let ci = ci as usize;
        if ci >= chars.len() {
            return Err("abbrev index".into());
        }
        let end = chars[ci..].iter().position(|&c| c == 0).ok_or("abbrev nul")?;
        types.push(TzType { off, dst: dst != 0, name: String::from_utf8_lossy(&chars[ci..ci + end]).to_string() });
    }
    let mut transitions = Vec::new();
    for (t, i) in times.into_iter().zip(idxs) {
        if i as usize >= types.len() {
            return Err("type index".into());
        }
        transitions.push((t, i as usize));
    }
    Ok(ZoneModel { transitions, types, leaps, rule: None })
}

/// Independent reader: returns (version, model incl. footer rule, footer text)
pub fn read_tzif(bytes: &[u8]) -> Result<(u8, ZoneModel, Option<String>), String> {
    let mut r = Rd { b: bytes, p: 0 };
    let h = read_hdr(&mut r)?;
    let m1 = read_block(&mut r, &h, 4)?;
    if h.version == 1 {
        return Ok((1, m1, None));
    }
    let h2 = read_hdr(&mut r)?;
    let mut m = read_block(&mut r, &h2, 8)?;
    let rest = &bytes[r.p..];
    let footer = String::from_utf8(rest.to_vec()).map_err(|_| "footer utf8")?;
    let ft = footer.trim_matches(|c: char| c == '\n').to_string();
    if !ft.is_empty() {
        m.rule = Some(parse_posix(&ft, h.version >= 3)?);
    }
    Ok((h.version, m, Some(ft)))
}

/// Strict validity per RFC 8536 for the categories C16 names: header counts, indicator counts,
/// sorted transitions, indices in bounds, isdst/utoff domains, footer framing; v1 without trailing bytes.
pub fn read_tzif_strict(bytes: &[u8]) -> Result<(u8, ZoneModel), String> {
    let mut r = Rd { b: bytes, p: 0 };
    let chk_hdr = |h: &Hdr| -> Result<(), String> {
        if h.typ == 0 || h.chr == 0 || !(h.isut == 0 || h.isut == h.typ) || !(h.isstd == 0 || h.isstd == h.typ) {
            return Err("header counts".into());
        }
        Ok(())
    };
    let sorted = |m: &ZoneModel| -> Result<(), String> {
        if m.transitions.windows(2).any(|w| w[0].0 >= w[1].0) {
            return Err("unsorted".into());
        }
        Ok(())
    };
    let h = read_hdr(&mut r)?;
    if h.version == 4 {
        return Err("version 4 not judged".into());
    }
    chk_hdr(&h)?;
    let m1 = read_block(&mut r, &h, 4)?;
    if h.version == 1 {
        if r.p != bytes.len() {
            return Err("trailing".into());
        }
        sorted(&m1)?;
        return Ok((1, m1));
    }
    let h2 = read_hdr(&mut r)?;
    chk_hdr(&h2)?;
    let mut m = read_block(&mut r, &h2, 8)?;
    sorted(&m)?;
    let rest = &bytes[r.p..];
    let footer = std::str::from_utf8(rest).map_err(|_| "footer utf8")?;
    if !(footer.starts_with('\n') && footer.ends_with('\n')) || footer.len() < 2 {
        return Err("footer framing".into());
    }
    let ft = &footer[1..footer.len() - 1];
    if ft.contains('\0') || ft.contains('\n') || ft.starts_with(':') {
        return Err("footer content".into());
    }
    if !ft.is_empty() {
        m.rule = Some(parse_posix(ft, h.version >= 3)?);
    }
    Ok((h.version, m))
}

// ------------------------------------------------------------------------------------------------
// POSIX TZ parser (independent)
// ------------------------------------------------------------------------------------------------

struct P<'a> {
    s: &'a [u8],
    i: usize,
}

impl P<'_> {
    fn peek(&self) -> Option<u8> {
        self.s.get(self.i).copied()
    }
    fn name(&mut self) -> Result<String, String> {
        if self.peek() == Some(b'<') {
            self.i += 1;
            let st = self.i;
            while self.peek().map(|c| c != b'>').unwrap_or(false) {
                self.i += 1;
            }
            if self.peek() != Some(b'>') {
                return Err("unterminated <".into());
            }
            let n = String::from_utf8_lossy(&self.s[st..self.i]).to_string();
            self.i += 1;
            Ok(n)
        } else {
            let st = self.i;
            while self.peek().map(|c| c.is_ascii_alphabetic()).unwrap_or(false) {
                self.i += 1;
            }
            Ok(String::from_utf8_lossy(&self.s[st..self.i]).to_string())
        }
    }
    fn int(&mut self) -> Result<i64, String> {
        let st = self.i;
        while self.peek().map(|c| c.is_ascii_digit()).unwrap_or(false) {
            self.i += 1;
        }
        if st == self.i {
            return Err("digits expected".into());
        }
        std::str::from_utf8(&self.s[st..self.i]).unwrap().parse::<i64>().map_err(|e| e.to_string())
    }
    /// [+-]hh[:mm[:ss]] -> seconds
    fn hms(&mut self, signed: bool, max_h: i64) -> Result<i64, String> {
        let mut sign = 1;
        if signed {
            if let Some(c) = self.peek() {
                if c == b'+' || c == b'-' {
                    self.i += 1;
                    if c == b'-' {
                        sign = -1;
                    }
                }
            }
        }
        let h = self.int()?;
        let (mut m, mut s) = (0, 0);
        if self.peek() == Some(b':') {
            self.i += 1;
            m = self.int()?;
            if self.peek() == Some(b':') {
                self.i += 1;
                s = self.int()?;
            }
        }
        if h > max_h || m > 59 || s > 59 {
            return Err("hms range".into());
        }
        Ok(sign * (h * 3600 + m * 60 + s))
    }
    fn day(&mut self, ext: bool) -> Result<(Day, i32), String> {
        let d = match self.peek() {
            Some(b'M') => {
                self.i += 1;
                let m = self.int()?;
                if self.peek() != Some(b'.') {
                    return Err(". expected".into());
                }
                self.i += 1;
                let w = self.int()?;
                if self.peek() != Some(b'.') {
                    return Err(". expected".into());
                }
                self.i += 1;
                let d = self.int()?;
                if !(1..=12).contains(&m) || !(1..=5).contains(&w) || !(0..=6).contains(&d) {
                    return Err("M range".into());
                }
                Day::M(m as u8, w as u8, d as u8)
            }
            Some(b'J') => {
                self.i += 1;
                let n = self.int()?;
                if !(1..=365).contains(&n) {
                    return Err("J range".into());
                }
                Day::J1(n as u16)
            }
            _ => {
                let n = self.int()?;
                if !(0..=365).contains(&n) {
                    return Err("n range".into());
                }
                Day::J0(n as u16)
            }
        };
        let mut t = 7200;
        if self.peek() == Some(b'/') {
            self.i += 1;
            t = if ext { self.hms(true, 167)? } else { self.hms(false, 24)? };
        }
        Ok((d, t as i32))
    }
}

pub fn parse_posix(s: &str, ext: bool) -> Result<Rule, String> {
    let mut p = P { s: s.as_bytes(), i: 0 };
    let std_name = p.name()?;
    let std_off = -p.hms(true, 24)?;
    let std = TzType { off: std_off as i32, dst: false, name: std_name };
    if p.i >= p.s.len() {
        return Ok(Rule { std, dst: None });
    }
    let dst_name = p.name()?;
    let dst_off = match p.peek() {
        Some(b',') => std_off + 3600,
        Some(_) => -p.hms(true, 24)?,
        None => return Err("dst without rule".into()),
    };
    if p.peek() != Some(b',') {
        return Err(", expected".into());
    }
    p.i += 1;
    let (start, start_time) = p.day(ext)?;
    if p.peek() != Some(b',') {
        return Err(", expected".into());
    }
    p.i += 1;
    let (end, end_time) = p.day(ext)?;
    if p.i != p.s.len() {
        return Err("trailing".into());
    }
    Ok(Rule { std, dst: Some(DstRule { ty: TzType { off: dst_off as i32, dst: true, name: dst_name }, start, start_time, end, end_time }) })
}

// ------------------------------------------------------------------------------------------------
// Random models
// ------------------------------------------------------------------------------------------------

pub fn random_name(rng: &mut Rng, alpha_only: bool) -> String {
    let len = 3 + rng.below(5) as usize; // 3..=7
    let mut s = String::new();
    for i in 0..len {
        let c = if alpha_only || rng.chance(3, 4) {
            let a = rng.below(52) as u8;
            if a < 26 {
                (b'A' + a) as char
            } else {
                (b'a' + a - 26) as char
            }
        } else {
            *rng.pick(&['0', '1', '7', '9', '+', '-'])
        };
        // a quoted name must not look like a plain one by accident; fine either way
        let _ = i;
        s.push(c);
    }
    s
}

pub fn random_offset(rng: &mut Rng) -> i32 {
    match rng.below(8) {
        0 => 0,
        1..=3 => rng.range(-14, 14) as i32 * 3600,
        4 => rng.range(-56, 56) as i32 * 900,
        5 => *rng.pick(&[-86_399, 86_399, -1, 1, -43_200, 50_400, 20_700, -34_200, 12_600]),
        _ => rng.range(-86_399, 86_399) as i32,
    }
}

pub fn random_day(rng: &mut Rng) -> Day {
    match rng.below(6) {
        0 => Day::J1(rng.range(2, 364) as u16),
        1 => Day::J0(rng.range(1, 363) as u16),
        _ => Day::M(rng.range(1, 12) as u8, rng.range(1, 5) as u8, rng.range(0, 6) as u8),
    }
}

/// Random rule with DST (both hemispheres, negative DST allowed). `ext` allows v3 times (-167..=167 h).
pub fn random_rule(rng: &mut Rng, ext: bool, alpha_names: bool) -> Rule {
    let std_off = if rng.chance(1, 5) { rng.range(-86_399, 86_399) as i32 } else { rng.range(-14, 14) as i32 * 3600 + *rng.pick(&[0, 0, 0, 1800, 900, 2700]) };
    let std_off = std_off.clamp(-86_399, 86_399);
    let std = TzType { off: std_off, dst: false, name: random_name(rng, alpha_names) };
    if rng.chance(1, 6) {
        return Rule { std, dst: None };
    }
    let delta = match rng.below(8) {
        0 => -3600,
        1 => 1800,
        2 => 7200,
        3 => rng.range(-7200, 7200) as i32,
        _ => 3600,
    };
    let dst_off = (std_off + delta).clamp(-86_399, 86_399);
    let time = |rng: &mut Rng| -> i32 {
        match rng.below(8) {
            0 => 7200,
            1 => 0,
            2 => 3600 * rng.range(0, 24) as i32,
            3 => 86_400,
            4 => rng.range(0, 86_399) as i32,
            5 if ext => rng.range(-167 * 3600, 167 * 3600) as i32,
            6 if ext => -3600 * rng.range(1, 48) as i32,
            _ => 3600 * rng.range(0, 5) as i32 + 60 * rng.range(0, 59) as i32,
        }
    };
    let (start, end) = (random_day(rng), random_day(rng));
    Rule { std, dst: Some(DstRule { ty: TzType { off: dst_off, dst: true, name: random_name(rng, alpha_names) }, start, start_time: time(rng), end, end_time: time(rng) }) }
}

/// Random zone model: `n_trans` transitions, types with arbitrary offsets, optional footer rule
/// consistent with the last transition's type (as chrono requires).
pub fn random_model(rng: &mut Rng, n_trans: usize, with_rule: bool, ext: bool, time32: bool) -> ZoneModel {
    let n_types = 1 + rng.below(6) as usize;
    let mut types: Vec<TzType> = (0..n_types).map(|_| TzType { off: random_offset(rng), dst: rng.chance(1, 2), name: random_name(rng, false) }).collect();
    let rule = if with_rule { Some(random_rule(rng, ext, false)) } else { None };
    // transition times
    let (lo, hi) = if time32 { (i32::MIN as i64 + 1, i32::MAX as i64 - 1) } else { (-(1i64 << 40), 1i64 << 40) };
    let mut ts: Vec<i64> = Vec::new();
    let mut t = if n_trans == 0 { 0 } else { rng.range(lo, lo / 2 + hi / 2) };
    for _ in 0..n_trans {
        ts.push(t);
        let gap = match rng.below(40) {
            0 => 1,
            1 => rng.range(1, 120),
            2 => rng.range(1, 86_400 * 2),
            3..=20 => rng.range(86_400 * 30, 86_400 * 400),
            21..=30 => rng.range(86_400 * 3, 86_400 * 30),
            _ => rng.range(86_400 * 3, 86_400 * 4000),
        };
        t = t.saturating_add(gap);
        if t >= hi {
            break;
        }
    }
    let mut transitions: Vec<(i64, usize)> = Vec::new();
    for &t in &ts {
        // sometimes keep the same offset (abbreviation/DST-flag only change)
        let idx = rng.below(types.len() as u64) as usize;
        transitions.push((t, idx));
    }
    if let (Some(r), Some(last)) = (&rule, transitions.last().copied()) {
        // footer must agree with the type in force at the last transition
        let ty = r.type_at(last.0).clone();
        let pos = match types.iter().position(|t| *t == ty) {
            Some(p) => p,
            None => {
                types.push(ty);
                types.len() - 1
            }
        };
        let n = transitions.len();
        transitions[n - 1].1 = pos;
    }
    ZoneModel { transitions, types, leaps: vec![], rule }
}

pub fn self_test() -> Result<(), String> {
    let chk = |c: bool, s: &str| if c { Ok(()) } else { Err(format!("reftz self-test failed: {}", s)) };
    // US Eastern 2024: DST starts 2024-03-10 07:00Z, ends 2024-11-03 06:00Z
    let r = parse_posix("EST5EDT,M3.2.0,M11.1.0", false)?;
    let (s, e) = r.events(2024).unwrap();
    chk(s == unix_day_of(2024, 3, 10) * 86_400 + 7 * 3600, "EDT start 2024")?;
    chk(e == unix_day_of(2024, 11, 3) * 86_400 + 6 * 3600, "EDT end 2024")?;
    chk(r.type_at(s - 1).off == -18_000 && r.type_at(s).off == -14_400 && r.type_at(e - 1).off == -14_400 && r.type_at(e).off == -18_000, "EST/EDT offsets")?;
    chk(r.print(false) == "EST5EDT,M3.2.0,M11.1.0", "print default")?;
    // southern hemisphere: Sydney
    let r = parse_posix("AEST-10AEDT,M10.1.0,M4.1.0/3", false)?;
    chk(r.type_at(unix_day_of(2024, 1, 15) * 86_400).off == 39_600 && r.type_at(unix_day_of(2024, 7, 15) * 86_400).off == 36_000, "Sydney")?;
    // negative DST: Dublin
    let r = parse_posix("IST-1GMT0,M10.5.0,M3.5.0/1", false)?;
    chk(r.type_at(unix_day_of(2024, 1, 15) * 86_400).off == 0 && r.type_at(unix_day_of(2024, 7, 15) * 86_400).off == 3600, "Dublin")?;
    // quoted names, v3 negative time (Godthab)
    let r = parse_posix("<-02>2<-01>,M3.5.0/-1,M10.5.0/0", true)?;
    chk(r.std.off == -7200 && r.dst.as_ref().unwrap().ty.off == -3600 && r.dst.as_ref().unwrap().start_time == -3600, "Godthab")?;
    chk(parse_posix(&r.print(false), true)? == r && parse_posix(&r.print(true), true)? == r, "print/parse round trip")?;
    // day forms
    chk(Day::J1(60).date_in(2024) == (3, 1) && Day::J1(59).date_in(2024) == (2, 28) && Day::J0(59).date_in(2024) == (2, 29) && Day::J0(59).date_in(2023) == (3, 1), "J forms")?;
    chk(Day::M(2, 5, 4).date_in(2024) == (2, 29) && Day::M(3, 5, 0).date_in(2024) == (3, 31) && Day::M(1, 1, 1).date_in(2024) == (1, 1), "M forms")?;
    // writer/reader round trip
    let m = ZoneModel {
        transitions: vec![(-100_000, 1), (0, 0), (1_000_000, 1)],
        types: vec![TzType { off: 3600, dst: false, name: "AAA".into() }, TzType { off: 7200, dst: true, name: "BBBB".into() }],
        leaps: vec![],
        rule: None,
    };
    for v in 1..=3u8 {
        let b = write_tzif(&m, &WriteOpts { version: v, indicators: v == 2, full_v1: v != 3, footer_override: None });
        let (ver, back, _) = read_tzif(&b)?;
        chk(ver == v && back.transitions == m.transitions && back.types == m.types, "writer/reader round trip")?;
    }
    chk(m.offset_at(-100_001) == 3600 && m.offset_at(-100_000) == 7200 && m.offset_at(-1) == 7200 && m.offset_at(0) == 3600 && m.offset_at(2_000_000) == 7200, "table lookup")?;
    let offs = m.all_offsets();
    // fold at T=0 (7200 -> 3600): wall 3600..7199 occurs twice; gap at T=-100000 (3600 -> 7200): wall -96400..-92801 skipped
    chk(m.local_candidates(5000, &offs).len() == 2 && m.local_candidates(3600, &offs).len() == 2 && m.local_candidates(7200, &offs).len() == 1, "fold candidates")?;
    chk(m.local_candidates(-96_400, &offs).is_empty() && m.local_candidates(-96_401, &offs).len() == 1 && m.local_candidates(-92_801, &offs).is_empty() && m.local_candidates(-92_800, &offs).len() == 1, "gap candidates")?;
    chk(m.exempt_local(-96_400, 90_000).is_some() && m.exempt_local(-92_800, 90_000).is_none() && m.exempt_local(3600, 90_000).is_none() && m.exempt_local(7200, 90_000).is_some() && m.exempt_local(5000, 90_000).is_none(), "exemption")?;
    Ok(())
}
