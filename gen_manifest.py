#!/usr/bin/env python3
"""Regenerates MANIFEST.json from the table below (kept in one place so it stays valid)."""
import json, os
ROOT = os.path.dirname(os.path.abspath(__file__))
HOOK_COMMITS = ["1ebbe62"]
BASELINE_OFF = ("cd /repo && cargo nextest run --workspace --no-fail-fast --test-threads 8 --offline "
                "|| (cd /repo && cargo test --workspace --no-fail-fast --offline)")

# property -> (technique, level text, level note, design ref)
CHECKS = {
 "C01": ("exhaustive runtime walk of all dates + constructor negative space against an independent reference calendar (differential monitor), overflow-checks/debug-assertions lane as panic monitor",
         "Every one of the 191,491,529 representable dates is visited on every run and compared field by field with an independently written Gregorian/ISO reference; the constructor argument space is explored per year on boundary cells (quick) or all cells (thorough) plus random i32/u32 tuples. For the date domain this is as strong as observation gets (complete enumeration); for the argument tuples it is sampling concentrated at specification boundaries.",
         "Trusted: the reference calendar in harness/src/refcal.rs (self-tested each run), rustc's overflow checks. Constructor tuples far from any boundary are only randomly sampled.",
         "DESIGN.md §4 C01"),
}
NOT_YET = {}

def main():
    props = [json.loads(l) for l in open(os.path.join(ROOT, "properties.jsonl"))]
    checks, na = [], []
    for p in props:
        pid = p["id"]
        if pid in CHECKS:
            tech, text, note, ref = CHECKS[pid]
            checks.append({
                "property_id": pid,
                "quick_cmd": f"./check {pid} quick",
                "thorough_cmd": f"./check {pid} thorough",
                "evidence_file": f"evidence/{pid}.json",
                "replay_cmd_template": f"./check {pid} --replay {{path}}",
                "engine": "harness",
                "level_claimed": {"category": "exploration", "text": text, "design_ref": ref},
                "level_note": note,
                "technique": tech,
            })
        else:
            na.append({"property_id": pid, "reason": NOT_YET.get(pid, "runtime monitor designed (DESIGN.md §4) but its check is not built yet in this revision; not claimed until it is")})
    m = {
        "version": 1,
        "setup_cmd": "./setup.sh",
        "hooks": {
            "guard": "__internal_verif (cargo feature of chrono)",
            "enable": "harness/Cargo.toml depends on chrono = { path = \"/repo\", features = [\"serde\", \"__internal_verif\"] }; ./check rebuilds it from /repo's working tree",
            "baseline_off_cmd": BASELINE_OFF,
            "source_commits": HOOK_COMMITS,
            "add_only": True,
        },
        "engines": [{"name": "harness", "path": "harness/", "serves_properties": sorted(CHECKS), "kind_free_text": "Rust crate linking the real chrono (path dependency on /repo): reference-model monitors, panic/overflow monitor (checked lane = overflow-checks + debug-assertions), counting allocator, step monitors, event-log checkers; driven by ./check"}],
        "checks": checks,
        "notes": "All checks are runtime monitors over executions of the real crate. Exit 2 (INCONCLUSIVE, no VIOLATION line) is used for build failures, watchdogs and unmet coverage floors. known_findings.json lists recorded and fixed defects.",
        "not_applicable": na,
    }
    json.dump(m, open(os.path.join(ROOT, "MANIFEST.json"), "w"), indent=1)
    print("MANIFEST.json:", len(checks), "checks,", len(na), "not claimed")

main()
