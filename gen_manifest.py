#!/usr/bin/env python3
"""Regenerates MANIFEST.json from the table below (kept in one place so it stays valid)."""
import json, os
ROOT = os.path.dirname(os.path.abspath(__file__))
HOOK_COMMITS = ["1ebbe62"]
BASELINE_OFF = ("cd /repo && cargo nextest run --workspace --no-fail-fast --test-threads 8 --offline "
                "|| (cd /repo && cargo test --workspace --no-fail-fast --offline)")

# property -> (technique, level text, level note, design ref)
CHECKS = {
 "C01": ("exhaustive runtime walk of all dates + constructor negative space against an independent reference calendar (differential monitor), overflow-checks/debug-assertions lane as panic monitor",
         "Every one of the 191,491,529 representable dates is visited on every run and compared field by field with an independently written Gregorian/ISO reference; the constructor argument space is explored per year on boundary cells (quick) or all cells (thorough) plus random i32/u32 tuples. For the date domain this is as strong as observation gets (complete enumeration); for the argument tuples it is sampling concentrated at specification boundaries.",
         "Trusted: the reference calendar in harness/src/refcal.rs (self-tested each run), rustc's overflow checks. Constructor tuples far from any boundary are only randomly sampled.",
         "DESIGN.md §4 C01"),
 "C02": ("differential runtime monitor: every timestamp constructor/accessor call compared with an i128 reference instant model on boundary catalogues, exhaustive day/millisecond slices and random i64 counts; panic/overflow monitor",
         "Runs the real from_timestamp*/timestamp* functions on millions of counts concentrated at the specification's boundaries (range ends ±3, unit boundaries, negative sub-second counts, the 2^63 ns window, leap-second nanosecond fields) and compares every result with exact integer arithmetic, in both directions and through SystemTime. Sampling, not proof: the i64 domain cannot be enumerated.",
         "Trusted: reference instant model (harness/src/refinst.rs, refcal.rs). Counts far from all boundaries are covered only by random sampling.",
         "DESIGN.md §4 C02"),
 "C03": ("differential runtime monitor against exact i128 arithmetic for date-time ± duration, distances, date ± days and the day/week iterators (step and length monitors), checked + plain lanes",
         "Every catalogue date-time is combined with a per-operand catalogue of durations that hit the exact range ends ±2 ns, day carries, sign/fraction combinations and TimeDelta extremes; iterators are driven to exhaustion at both range ends; all ordered pairs of N values check the distance laws; operator forms are compared with checked forms; the same instants are required whatever the offset. Both the overflow-checking and the plain release build are exercised because wrap-around is only visible as a value in the latter.",
         "Trusted: reference instant model. Leap-second operands are excluded here by the property (C07). Random part is sampling.",
         "DESIGN.md §4 C03"),
 "C04": ("differential runtime monitor: wall = utc + offset reference model evaluated next to every construction, accessor, text form, field replacement, day/month step and comparison of DateTime<FixedOffset>/<Utc>, dense at the range ends and over one-second offsets",
         "Instants at both range ends (and catalogue dates) are combined with stratified offsets (thorough: every one-second offset in (-24h, +24h) at 5 instants) so that the wall clock lands in the one-day headroom on both sides; each value goes through ~300 calls whose results are compared with the reference wall-clock model, and all ordered pairs of N values check that equality/order/hash/conversion depend only on the instant. Sampling of an infinite product space, concentrated where the specification has its edges.",
         "Trusted: reference calendar/instant model. A leap-second representation inside the very last second of the range is counted but not judged (the property does not place it). Five known findings (stepping INTO the headroom is refused) are listed in known_findings.json.",
         "DESIGN.md §4 C04"),
 "C05": ("reference-model runtime monitor: definition-based offset lookup and brute-force wall-time candidates (independent TZif reader/writer and POSIX rule evaluator) evaluated next to chrono's lookups through the guarded hook and through the public Local API in child processes with TZ set",
         "Every TZif file of the system database without leap records (thorough; quick: 16 awkward + seed-chosen), thousands of synthetic TZif v1-v3 files from random zone models and thousands of random POSIX rules are queried densely around every transition (instants T+{-1,0,1}, wall seconds at both edges of every gap/fold ±2 s, midpoints), over 50 rule years and far years, plus sparse random instants; every instant is also round-tripped through its wall time. A sample of each zone's queries goes through chrono::Local itself. One-second resolution is exhaustive only in the neighbourhoods; zones are a sample of 'all zones'.",
         "Trusted: R-tz oracle (harness/src/reftz.rs, self-tested each run). Rule-governed queries are judged only where the rule's transitions alternate and lie >1 day inside the calendar year (property restriction). Boundary seconds of gaps/folds are exempt except for panics/foreign offsets. Known finding: overlapping gaps/folds of transitions closer together than their offset changes (synthetic zones only).",
         "DESIGN.md §4 C05"),
 "C07": ("differential runtime monitor against a physical-timeline model of the time of day (a leap operand inserts one extra second), exhaustive acceptance grid for the constructors, per-operand duration catalogues that reach the start/end of the leap second exactly, all ordered pairs for differences",
         "The model reproduces all 47 leap-second examples of NaiveTime's rustdoc in its self-test, then every (hour, minute, second) tuple × 14 sub-second boundary values is fed to the constructors (exhaustive grid), and additions/subtractions are driven with ~370 durations per operand built to land exactly on, just before and just after the leap second, the next second and midnight, with TimeDelta and std::time::Duration, on NaiveTime, NaiveDateTime and through FixedOffset. Thorough covers every second of the day × 8 fractions × ~200 durations. Sampling elsewhere.",
         "Trusted: the timeline oracle in harness/src/props/c07.rs (self-tested against the rustdoc examples and a second formulation each run). NaiveDateTime differences across different dates with a leap operand are only checked for antisymmetry (the property does not define them).",
         "DESIGN.md §4 C07"),
 "C16": ("runtime monitors around the real TZif/TZ-rule readers: model-driven writer + independent strict reader as accept/reject oracle with structural dump comparison through the guarded hook, panic/overflow monitor, counting global allocator (peak live bytes per parse), child processes for abort-prone header extremes and for the public Local route",
         "Conforming files/strings generated from random models must be accepted with exactly the written transitions, types, leap records and rule; every system zoneinfo file likewise; per valid base file each category of invalidity the property names is produced by a targeted mutation and must be rejected; random/mutated bytes and strings must neither panic, overflow nor allocate beyond 64x the input; zones accepted along the way, and hostile-but-valid zones, must answer queries on both routes. Sampling of an unbounded input space with structure-aware generators; the per-file truncation set is exhaustive for small files.",
         "Trusted: R-tz writer/strict reader/POSIX model (self-tested each run); the allocation bound is 64*len + 64 KiB. Mutants that coincidentally stay well-formed for the strict reference reader are not expected to be rejected. Offsets of 24 h or more are treated as out-of-range data (chrono's FixedOffset cannot carry them).",
         "DESIGN.md §4 C16"),
 "C08": ("differential runtime monitor against the reference calendar for month stepping, every with_* replacement, NaiveWeek, n-th weekday, years_since, quarter/year_ce/days-in-month; dense product walk over year windows at MIN/0/2000/MAX plus boundary-biased and random arguments up to the integer extremes",
         "A product walk (every date of year windows at both range ends, year 0 and modern years × month steps -50..50 × all small replacement arguments) is combined with boundary-biased samples (days 28-31, Feb 29, month counts hitting the exact distance to either range end, u32/i32 extremes and bit-field edges for replacement arguments, all 7 week starts near both range ends, all n 0..=255 for the n-th weekday). ~1e8 evaluations in quick, 3e9 in thorough. Sampling outside the walked windows.",
         "Trusted: reference calendar. Month::num_days for years outside NaiveDate's range accepts None or the calendar length (docs and code differ); years_since from a Feb 29 base onto Feb 28 accepts k or k+1. DateTime<Tz> replacement is C04's.",
         "DESIGN.md §4 C08"),
 "C09": ("runtime round-trip monitor print -> FromStr for every default text form, with an independent shape scanner for the three stated shape rules; exhaustive walk over all dates (thorough), every second x fraction catalogue, all 2879 whole-minute offsets x boundary instants incl. the headroom",
         "Values are built from reference integers, printed with Display and Debug, parsed back and compared field by field; the printed text is scanned independently for 'fewest of 0/3/6/9 lossless fraction digits', 'sign exactly outside 0..=9999' and 'second 60 exactly for leap seconds'. NaiveDate is exhaustive in thorough (191M dates; quick walks ~9600 years around every place where the printed form changes), times cover every second x 33 fractions, offsets are exhaustive over whole minutes. Sampling for the date x time x offset product.",
         "Trusted: reference calendar; the scanner only checks the three stated rules. Three known findings (NaiveDateTime Display form; wall date in the headroom, Debug and Display) are listed in known_findings.json. DateTime<Local> is not covered.",
         "DESIGN.md §4 C09"),
 "C10": ("differential runtime monitor: RFC 3339 writer compared byte-for-byte with a reference rendering for all SecondsFormat x use_z combinations and parsed back; exact-acceptance differential between an independent byte-level recogniser of the RFC 3339 grammar and parse_from_rfc3339 on generated valid strings, every single-character edit of them, systematic field spaces and arbitrary Unicode",
         "The reader oracle decides for every input string whether it matches the grammar with the documented latitude and denotes an existing date/time/offset; chrono must accept exactly those and return the denoted value - a disagreement in either direction is a violation. Inputs include all 10^6 hh:mm:ss triples, years x months x days incl. 00/13/32, 7 sign variants x hh 00..99 x mm 00..99 x 8 separators, fraction lengths up to 10^6 digits, and every single edit (delete/swap/replace/insert from 44 characters incl. look-alike Unicode) of grammar-generated strings. The writer is checked on all 2879 offsets, a fraction catalogue at every truncation point and a date sweep over years 0..=9999. 2.2e7 evaluations quick, 4.9e8 thorough; sampling of the string space.",
         "Trusted: the recogniser and reference renderer in harness/src/props/c10.rs. Leap seconds are generated only on wall second :59; the relaxed readers (%+, FromStr) are not the strict parser and are not judged.",
         "DESIGN.md §4 C10"),
 "C14": ("runtime soundness/completeness/contradiction monitors on Parsed: all 21 fields recomputed from a value by the reference calendar, a reference resolver written from the rustdoc decides what a field set denotes; all 2^14 date-field subsets for boundary days, random (thorough: all 2^21) subsets of all fields, single-field contradictions, hostile field values, setters twice",
         "Every to_* resolution method is called on field sets derived from real values (sufficient, insufficient, with one contradicting or out-of-range field) and on independently random fields; a successful result is compared field by field with every supplied field (soundness), derived sufficient sets must give exactly the value (completeness), and the error kind is asserted only where the property names it. Subset enumeration is exhaustive for the 14 date fields on 44+ boundary days; the rest is sampling.",
         "Trusted: reference calendar and the reference resolver in harness/src/props/c14.rs (self-checked on derived sets each run). Ambiguous situations (two-digit year groups resolved against a timestamp, missing second with a timestamp) are held only to 'error or sound success'.",
         "DESIGN.md §4 C14"),
 "C17": ("differential runtime monitor against i128 floor/ceil/nearest-multiple arithmetic on the wall-clock nanosecond count for DurationRound and SubsecRound (NaiveDateTime, DateTime<Utc>, DateTime<FixedOffset>), constructed multiples/ties/±1 cases, window and range ends, all 65536 digit counts, idempotence and error-class monitors",
         "Inputs are constructed as k*span+d with d at 0, ±1, exact ties and ±1 around them, spans from 1 ns to i64::MAX incl. invalid ones, instants at the 64-bit-nanosecond window edges ±12 ns, the epoch, both range ends with offsets that push the wall clock out of range; every Ok result is re-applied (idempotence) and every Err must be of a kind that applies. ~8e7 evaluations quick, 2e9 thorough. Sampling of the instant × span × offset product.",
         "Trusted: i128 oracle in harness/src/props/c17.rs (self-tested on rustdoc examples). Where the wall-clock and the UTC timestamp disagree about fitting 64 bits both Err(TimestampExceedsLimit) and the correct value are accepted. Leap-second inputs are only in the no-panic/error-class monitors for DurationRound.",
         "DESIGN.md §4 C17"),
 "C19": ("exhaustive runtime enumeration against tiny reference models: 7/12-cycles, all 49 weekday pairs, all 128 weekday sets x 7 days, all 128x128 set pairs, every next/next_back interleaving of every set from every start day, full 8/16-bit numeric domains, 2^len case variants of every name; plus boundary catalogues (k + m*2^32 ...) and random values for the wide integer types and ~3e5 near-miss strings",
         "The finite parts of the property (cycles, numbering, distance, set algebra, iteration order under every interleaving, 8/16-bit conversions, case variants) are enumerated completely on every run, so for them observation is as strong as it gets; the wide integer conversions and string rejection are sampled with catalogues aimed at narrowing casts and one-edit neighbours.",
         "Trusted: the [bool;7] set model and the ASCII-case-insensitive name recogniser in harness/src/props/c19.rs. from_f32/from_f64 are not checked (the property says integers).",
         "DESIGN.md §4 C19"),
 "C06": ("differential runtime monitor against exact i128 nanosecond arithmetic with an accessor-free range-invariant monitor on every TimeDelta returned (read through its serialized (secs, nanos) pair); 415-entry boundary catalogue + random values, all ordered pairs, catalogue multipliers/divisors",
         "Every constructor, checked and operator form, accessor, comparison, std conversion and the Display text is compared with exact integer arithmetic on all ordered pairs of 3000 (thorough 10000) values built around the range ends, the i64 count limits of each unit, sign and carry boundaries; every returned TimeDelta passes the MIN<=x<=MAX invariant monitor. 1.3e8 evaluations in quick. Sampling of the pair space, dense at the specification's edges; both overflow-checking and plain release lanes.",
         "Trusted: i128 oracle; bincode serialization as an accessor-free way to read a TimeDelta (cross-checked against Debug at start).",
         "DESIGN.md §4 C06"),
 "C11": ("differential runtime monitor: RFC 2822 writer compared with a reference renderer on every day of years 0..=9999 and parsed back; reader driven by a grammar generator with the denoted value known by construction (obsolete years, zone names, military letters, comments, white-space runs), contradicting weekdays, single-edit mutations and arbitrary text with a lenient reference reader as consistency monitor",
         "All 3,652,425 days of wall-clock years 0-9999 are rendered (with cycling whole-minute offsets, random times, leap seconds) and compared with the reference text and round-tripped; the reader sees ~5e6 generated valid strings covering every optional branch of the grammar systematically (all 100 two-digit years, all 1000 three-digit years, every case pattern of every zone name, all 2879 numeric zones, nested/escaped comments) plus mutated and arbitrary strings. Sampling of the string space; exhaustive over days for the writer.",
         "Trusted: reference renderer and lenient reference reader in harness/src/props/c11.rs. Forms the RFC allows but the property does not list (class X) are only value-checked if accepted.",
         "DESIGN.md §4 C11"),
 "C12": ("differential runtime monitor: an independent reference strftime renderer (one rule per rustdoc table row, fields from the reference calendar on wall-clock integers) evaluated next to every real format call; full product of catalogue values x all 121 valid (specifier, modifier) pairs, walks over whole year ranges / every second / every one-second offset, random format strings; failure monitor for unknown specifiers and missing fields",
         "Every documented specifier with every allowed padding modifier is rendered for catalogue values (negative, 5-6-digit years, every year class, ISO spill days, hours 0/11/12/13/23, leap seconds, offsets with seconds around the 30 s rounding point) and compared with the reference text; date specifiers are walked over ~1700 whole years (thorough ~4500), time specifiers over all 86400 seconds, offset specifiers over all 172,799 one-second offsets; random strings of 2-12 items check composition, literals and failure. 1.5e7 evaluations quick, 4e8 thorough.",
         "Trusted: the reference renderer in harness/src/props/c12.rs (self-tested on all rustdoc examples). Where docs and tests disagree only the common part is asserted (ambiguity table in the module header: %f padding, %Z, space-padded out-of-range years, modifiers on %s/%q/%w/%u, offsets exactly 30 s from a minute). %y/%g are not generated for negative years (property).",
         "DESIGN.md §4 C12"),
 "C13": ("runtime round-trip monitor format -> parse_from_str / parse_and_remainder over a generated family of unambiguous format strings (every invertible specifier with every padding modifier, all date forms, 12/24 h clocks, fractions, %z/%:z/%+/%s) with per-format value domain and printed precision, plus letter-case and white-space perturbations of the formatted text",
         "12,800 (thorough 256,000) generated formats plus 82 canonical ones are each applied to hundreds of boundary-biased values (signed and 5-6-digit years, pivot years, ISO spill, ordinal 366, weeks 0/53, leap seconds, hours 0/12, negative/zero/second-bearing offsets, pre-1970 instants, wall dates in the headroom); the parsed value must equal the value truncated to the printed precision, the remainder must be exact, and perturbed text must parse to the same value. 1.9e7 evaluations quick, 5e8 thorough. Sampling of formats x values.",
         "Trusted: reference calendar/instants; the generator's domain/precision bookkeeping (self-tested). One known finding (wall date in the headroom cannot be parsed back). Print-only %::z/%:::z/%Z and read-only %#z are exercised separately with weaker expectations.",
         "DESIGN.md §4 C13"),
 "C15": ("panic/overflow monitor + validity monitor + step monitor + hang watchdog around a table of ~210 public fallible entry points driven with integer extremes, range-end / leap-second / headroom receivers, hostile strings and format strings (every 2- and 3-byte %-combination, truncated specifiers, multi-byte, 4 KiB), in the overflow-checking and the plain lane",
         "Every call runs under catch_unwind (a panic, including an arithmetic overflow or a failed debug_assert in the checked lane, is a violation unless the site is on the explicit allow-list of documented panics), every returned value is validated against the reference calendar and the type's range, StrftimeItems iteration must stop within 8*len+16 items, and a call that does not return within 20 s is reported as a hang. The main constructors get the full cross product of 26 i32 x 32 u32 x 32 u32 catalogue values. The panic monitors of all other properties' drivers add to this.",
         "Trusted: the allow-list (only SubsecRound::round_subsecs when its carry leaves the range). Operators and deprecated panicking constructors are not in the table. Sampling of argument space concentrated at type and range extremes.",
         "DESIGN.md §4 C15"),
 "C20": ("runtime round-trip monitor through serde_json (self-describing) and bincode (positional) for every serializable type, plus exact-integer monitor for the sixteen ts_* helper modules fed through visit_i64/visit_u64/JSON/bincode with per-unit boundary catalogues; panic monitor on every call",
         "Exhaustive for Weekday/Month; strided walk over all dates; every second of the day; all 2879 whole-minute offsets; range ends with headroom; TimeDelta range ends and raw out-of-range pairs; each ts_* module must write exactly the floor count (i128 oracle), read it back through four routes and reject out-of-range integers by value. ~1.1e7 evaluations quick, 6e8 thorough. Sampling elsewhere.",
         "Trusted: i128 instant oracle. Leap seconds only on :59 and excluded from timestamp equalities (property). Three known findings (sub-minute offsets; wall date in the headroom) are listed in known_findings.json. DateTime<Local> is exercised with the process zone only.",
         "DESIGN.md §4 C20"),
 "C18": ("offline checker over recorded event logs: generated histories of TZ changes, sleeps and conversions run in child processes (3 of 4 in a private mount namespace with a controlled /etc/localtime); each step is logged with SystemTime stamps before/after and every conversion is checked against the answers of the admissible environment states computed from measured stamps and the documented source precedence (R-tz)",
         "48 (thorough 600) histories of 10-30 steps cover every source kind (absolute path, :path, zone name, :name, POSIX rule, empty, unreadable, non-TZif, garbage, unset), every change kind (env->env, env->unset, unset->env, valid->garbage->valid, back to an earlier value), same-thread conversions within and beyond one second of a change and fresh-thread conversions, under four /etc/localtime configurations; thorough adds stress runs with a rotating TZ. A few hundred to a few thousand conversions per run: real sleeps bound the volume.",
         "Trusted: R-tz resolution of each TZ value; stamps bracket chrono's own clock reads so load can only weaken a run. Query instants: one where all configured sources differ, one wall-clock second far from any transition, and one instant shortly before a DST start of the configured rule zones (so a lookup in the wrong direction shows). If unshare/mount is unavailable only the host /etc configuration is exercised (reported in evidence).",
         "DESIGN.md §4 C18"),
}
NOT_YET = {}

def main():
    props = [json.loads(l) for l in open(os.path.join(ROOT, "properties.jsonl"))]
    checks, na = [], []
    for p in props:
        pid = p["id"]
        if pid in CHECKS:
            tech, text, note, ref = CHECKS[pid]
            checks.append({
                "property_id": pid,
                "quick_cmd": f"./check {pid} quick",
                "thorough_cmd": f"./check {pid} thorough",
                "evidence_file": f"evidence/{pid}.json",
                "replay_cmd_template": f"./check {pid} --replay {{path}}",
                "engine": "harness",
                "level_claimed": {"category": "exploration", "text": text, "design_ref": ref},
                "level_note": note,
                "technique": tech,
            })
        else:
            na.append({"property_id": pid, "reason": NOT_YET.get(pid, "runtime monitor designed (DESIGN.md §4) but its check is not built yet in this revision; not claimed until it is")})
    m = {
        "version": 1,
        "setup_cmd": "./setup.sh",
        "hooks": {
            "guard": "__internal_verif (cargo feature of chrono)",
            "enable": "harness/Cargo.toml depends on chrono = { path = \"/repo\", features = [\"serde\", \"__internal_verif\"] }; ./check rebuilds it from /repo's working tree",
            "baseline_off_cmd": BASELINE_OFF,
            "source_commits": HOOK_COMMITS,
            "add_only": True,
        },
        "engines": [{"name": "harness", "path": "harness/", "serves_properties": sorted(CHECKS), "kind_free_text": "Rust crate linking the real chrono (path dependency on /repo): reference-model monitors, panic/overflow monitor (checked lane = overflow-checks + debug-assertions), counting allocator, step monitors, event-log checkers; driven by ./check"}],
        "checks": checks,
        "notes": "All checks are runtime monitors over executions of the real crate. Exit 2 (INCONCLUSIVE, no VIOLATION line) is used for build failures, watchdogs and unmet coverage floors. known_findings.json lists recorded and fixed defects.",
        "not_applicable": na,
    }
    json.dump(m, open(os.path.join(ROOT, "MANIFEST.json"), "w"), indent=1)
    print("MANIFEST.json:", len(checks), "checks,", len(na), "not claimed")

main()
