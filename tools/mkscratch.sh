#!/bin/bash
# usage: tools/mkscratch.sh <name>   -> /tmp/bw-<name>/{repo,harness,target}
# A private copy of /repo (git clone of HEAD) and of the harness pointed at
# it, with its own target dir. Remove with: rm -rf /tmp/bw-<name>
set -e
N="$1"; D="/tmp/bw-$N"
rm -rf "$D"; mkdir -p "$D"
git clone -q /repo "$D/repo"
rsync -a --exclude target /verif/harness/ "$D/harness/"
sed -i "s#path = \"/repo\"#path = \"$D/repo\"#" "$D/harness/Cargo.toml"
sed -i "s#target-dir = \"/verif/target\"#target-dir = \"$D/target\"#" "$D/harness/.cargo/config.toml"
echo "$D"
