#!/bin/bash
# usage: tools/mut.sh <prop> <sed-expr> <file-under-/repo> [tier]
# Applies a one-line sed mutation to /repo IN PLACE, runs ./check <prop>, and restores the file.
# Only for quick sensitivity experiments by the main session (never leaves /repo modified).
P="$1"; EXPR="$2"; F="$3"; T="${4:-quick}"
cd /repo || exit 9
if ! git diff --quiet; then echo "repo dirty, abort"; exit 9; fi
sed -i "$EXPR" "$F"
if git diff --quiet; then echo "MUTATION DID NOT APPLY"; exit 8; fi
git diff | grep '^[-+]' | grep -v '^+++\|^---' | head -6
cd /verif && ./check "$P" "$T" | grep -E "VIOLATION|signature|INCONCLUSIVE|SUMMARY|error" | head -12
git -C /repo checkout -- .
