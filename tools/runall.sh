#!/bin/bash
# usage: tools/runall.sh <tier> <seed>...   runs every registered check, prints one line per check
T="$1"; shift
cd /verif
for S in "$@"; do
  for P in $(python3 -c "import json;print(' '.join(c['property_id'] for c in json.load(open('MANIFEST.json'))['checks']))"); do
    t0=$(date +%s.%N)
    out=$(VERIF_SEED=$S ./check $P $T 2>&1); rc=$?
    t1=$(date +%s.%N)
    nk=$(echo "$out" | grep -c '^KNOWN-FINDING')
    nv=$(echo "$out" | grep -c '^VIOLATION')
    ni=$(echo "$out" | grep -c 'INCONCLUSIVE\|HARNESS-ERROR')
    printf "%s seed=%s tier=%s exit=%s known=%s violations=%s inconclusive=%s wall=%.1fs\n" $P $S $T $rc $nk $nv $ni $(echo "$t1 - $t0" | bc)
    if [ $rc -ne 0 ]; then echo "$out" | grep -v '^KNOWN' | head -12; fi
  done
done
