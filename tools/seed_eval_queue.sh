#!/bin/bash
# Evaluates every delivered seeded mutant under $BASE/*/m*/ that has no eval.json yet,
# at most $1 (default 3) at a time; loops until $BASE/STOP exists.
PAR=${1:-3}
BASE=${MUT_BASE:-/tmp/mut-out}
cd /verif
while [ ! -e $BASE/STOP ]; do
  for d in $BASE/C*/m*/; do
    d=${d%/}
    [ -e "$d/patch.diff" ] && [ -e "$d/demo.rs" ] && [ -e "$d/meta.json" ] || continue
    [ -e "$d/eval.json" ] || [ -e "$d/.evaluating" ] && continue
    while [ $(ls $BASE/C*/m*/.evaluating 2>/dev/null | wc -l) -ge $PAR ]; do sleep 5; done
    touch "$d/.evaluating"
    p=$(basename $(dirname $d))
    ( python3 tools/seed_eval.py $p $d ${EVAL_FLAGS---all-checks} > $d/eval.log 2>&1; rm -f $d/.evaluating ) &
  done
  sleep 20
done
wait
