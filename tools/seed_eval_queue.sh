#!/bin/bash
# Evaluates every delivered seeded mutant under /tmp/mut-out/*/m*/ that has no eval.json yet,
# at most $1 (default 3) at a time; loops until /tmp/mut-out/STOP exists.
PAR=${1:-3}
cd /verif
while [ ! -e /tmp/mut-out/STOP ]; do
  for d in /tmp/mut-out/C*/m*/; do
    d=${d%/}
    [ -e "$d/patch.diff" ] && [ -e "$d/demo.rs" ] && [ -e "$d/meta.json" ] || continue
    [ -e "$d/eval.json" ] || [ -e "$d/.evaluating" ] && continue
    while [ $(ls /tmp/mut-out/C*/m*/.evaluating 2>/dev/null | wc -l) -ge $PAR ]; do sleep 5; done
    touch "$d/.evaluating"
    p=$(basename $(dirname $d))
    ( python3 tools/seed_eval.py $p $d --all-checks > $d/eval.log 2>&1; rm -f $d/.evaluating ) &
  done
  sleep 20
done
wait
