#!/bin/bash
# API-coverage audit: builds the harness with -Cinstrument-coverage (nightly), runs the quick tier
# of every check (checked-like flags), and lists the functions of /repo/src that no monitor reached.
# Output: /verif/work/coverage/{report.txt,uncovered_functions.txt}. Scratch build in /tmp/cov-target.
set -e
cd /verif
BIN=~/.rustup/toolchains/nightly-x86_64-unknown-linux-gnu/lib/rustlib/x86_64-unknown-linux-gnu/bin
OUT=/verif/work/coverage; rm -rf $OUT; mkdir -p $OUT/prof
export CARGO_TARGET_DIR=/tmp/cov-target CARGO_NET_OFFLINE=true VERIF_ROOT=/verif
export RUSTFLAGS="-Cinstrument-coverage -Coverflow-checks=on -Cdebug-assertions=on"
cargo +nightly build --offline --release --manifest-path harness/Cargo.toml --bin chk 2>&1 | tail -1
for P in $(python3 -c "import json;print(' '.join(c['property_id'] for c in json.load(open('MANIFEST.json'))['checks']))"); do
  LLVM_PROFILE_FILE="$OUT/prof/$P-%p-%m.profraw" VERIF_SCALE=${VERIF_SCALE:-30} /tmp/cov-target/release/chk $P --tier quick --seed 0 --out $OUT/$P.json | grep SUMMARY | cut -c1-120
done
$BIN/llvm-profdata merge -sparse $OUT/prof/*.profraw -o $OUT/all.profdata
$BIN/llvm-cov report /tmp/cov-target/release/chk -instr-profile=$OUT/all.profdata --ignore-filename-regex='(\.cargo|rustc|/verif/)' 2>/dev/null > $OUT/report.txt
$BIN/llvm-cov export /tmp/cov-target/release/chk -instr-profile=$OUT/all.profdata -format=lcov --ignore-filename-regex='(\.cargo|rustc|/verif/)' 2>/dev/null > $OUT/all.lcov
python3 - <<'PY'
import re,collections
fn=collections.defaultdict(lambda: [0,None,None])
cur=None
for l in open('/verif/work/coverage/all.lcov'):
    l=l.strip()
    if l.startswith('SF:'): cur=l[3:]
    elif l.startswith('FN:'):
        ln,name=l[3:].split(',',1); fn[(cur,name)][1]=int(ln)
    elif l.startswith('FNDA:'):
        c,name=l[5:].split(',',1); fn[(cur,name)][0]+=int(c)
unc=[(f,v[1],n) for (f,n),v in fn.items() if v[0]==0 and f and f.startswith('/repo/src')]
unc.sort()
import subprocess
def dem(n):
    return n
open('/verif/work/coverage/uncovered_functions.txt','w').write('\n'.join(f"{f}:{ln} {n}" for f,ln,n in unc))
print(len(fn),'functions instrumented;',len(unc),'never executed under /repo/src')
PY
rm -rf $OUT/prof
rm -f /repo/*.profraw  # written by instrumented build scripts
