#!/bin/bash
# usage: tools/tryseed.sh <patch.diff> <Cxx> [quick|thorough]   — applies a seeded change to /repo, runs one check,
# restores /repo immediately (also on interrupt). Evidence files are preserved.
P=$1; C=$2; T=${3:-quick}
[ -z "$(git -C /repo status --porcelain)" ] || { echo "/repo not clean"; exit 3; }
trap 'git -C /repo checkout -- .' EXIT INT TERM
git -C /repo apply "$P" || exit 3
cp evidence/$C.json /tmp/.ev-$C.bak 2>/dev/null
./check $C $T 2>&1 | grep -E "^VIOLATION|signature|SUMMARY|INCONCLUSIVE|^error" | head -${LINES_MAX:-12}
echo "exit=${PIPESTATUS[0]}"
cp /tmp/.ev-$C.bak evidence/$C.json 2>/dev/null; rm -f /tmp/.ev-$C.bak
