#!/usr/bin/env python3
"""Evaluate one seeded mutant delivered by a sub-agent.

usage: tools/seed_eval.py <PROP> <mutant dir with patch.diff, demo.rs, meta.json> [--all-checks] [--tier quick]

Works in a scratch directory /tmp/ev-<PROP>-<name>/ (clone of /repo HEAD + copy of /verif's
machinery pointed at that clone, own target dir); /repo and /verif are not modified.
Steps: (1) the patch applies and chrono's full test suite passes with it, (2) the demo fails
with the patch and (3) passes without it, (4) which of /verif's checks report a violation on the
mutant.  Writes <mutant dir>/eval.json and removes the scratch directory.
"""
import json, os, re, shutil, subprocess, sys, time

def sh(cmd, cwd=None, env=None, timeout=3600):
    p = subprocess.run(cmd, shell=True, cwd=cwd, env=env, stdout=subprocess.PIPE, stderr=subprocess.STDOUT, text=True, timeout=timeout)
    return p.returncode, p.stdout

def main():
    prop, mdir = sys.argv[1], os.path.abspath(sys.argv[2])
    all_checks = "--all-checks" in sys.argv
    tier = "thorough" if "--thorough" in sys.argv else "quick"
    name = ("r5" if "/mut-out5/" in mdir else "r4" if "/mut-out4/" in mdir else "r3" if "/mut-out3/" in mdir else "r2" if "/mut-out2/" in mdir else "r1") + os.path.basename(mdir.rstrip("/"))
    D = f"/tmp/ev-{prop}-{name}"
    shutil.rmtree(D, ignore_errors=True)
    os.makedirs(D)
    res = {"property": prop, "mutant_dir": mdir, "evaluated_at": time.strftime("%Y-%m-%dT%H:%M:%S"), "repo_head": sh("git -C /repo rev-parse --short HEAD")[1].strip()}
    env = dict(os.environ, CARGO_NET_OFFLINE="true")
    try:
        sh(f"git clone -q /repo {D}/repo")
        rc, out = sh(f"git apply --check {mdir}/patch.diff && git apply {mdir}/patch.diff", cwd=f"{D}/repo")
        res["patch_applies"] = rc == 0
        if rc != 0:
            res["error"] = out[-600:]
            return res
        env_t = dict(env, CARGO_TARGET_DIR=f"{D}/rt")
        demo = open(f"{mdir}/demo.rs").read()
        feats = "--features serde" if "serde" in demo else ""
        try:
            demo_cmd = json.load(open(f"{mdir}/meta.json")).get("demo_cmd", "") or ""
        except Exception:
            demo_cmd = ""
        single = "-- --test-threads=1" if ("test-threads=1" in demo_cmd or "test-threads=1" in demo) else ""
        # a demo that needs a non-UTC system zone runs in a private mount namespace
        wrap = ("unshare -m sh -c 'mount -t tmpfs -o size=1m tmpfs /etc && ln -s /usr/share/zoneinfo/Asia/Tokyo /etc/localtime && exec \"$0\" \"$@\"' " if "unshare" in demo_cmd else "")
        # (1) baseline suite with the mutant
        rc, out = sh("cargo test --offline --workspace --no-fail-fast 2>&1 | grep -E '^test result|FAILED|failed' ", cwd=f"{D}/repo", env=env_t)
        res["baseline_suite_passes_with_mutant"] = ("FAILED" not in out and "failed;" in out and not re.search(r"[1-9]\d* failed", out))
        res["baseline_suite_tail"] = out[-500:]
        rc2, out2 = sh("cargo test --offline --features serde --lib 2>&1 | grep -E '^test result|FAILED'", cwd=f"{D}/repo", env=env_t)
        res["serde_lib_suite_passes_with_mutant"] = ("FAILED" not in out2 and not re.search(r"[1-9]\d* failed", out2))
        # (2) demo with mutant
        shutil.copy(f"{mdir}/demo.rs", f"{D}/repo/tests/seeded_demo.rs")
        # build outside the namespace wrapper (a tmpfs over /etc hides /etc/alternatives/cc from the linker)
        sh(f"cargo test --offline {feats} --test seeded_demo --no-run 2>&1 | tail -3", cwd=f"{D}/repo", env=env_t)
        rc, out = sh(f"{wrap}cargo test --offline {feats} --test seeded_demo {single} 2>&1 | tail -25", cwd=f"{D}/repo", env=env_t)
        res["demo_fails_with_mutant"] = bool(re.search(r"[1-9]\d* failed|panicked|FAILED", out)) and "could not compile" not in out
        res["demo_with_mutant_tail"] = out[-600:]
        # (3) demo without mutant
        sh(f"git apply -R {mdir}/patch.diff", cwd=f"{D}/repo")
        sh(f"cargo test --offline {feats} --test seeded_demo --no-run 2>&1 | tail -3", cwd=f"{D}/repo", env=env_t)
        rc, out = sh(f"{wrap}cargo test --offline {feats} --test seeded_demo {single} 2>&1 | tail -8", cwd=f"{D}/repo", env=env_t)
        res["demo_passes_without_mutant"] = bool(re.search(r"test result: ok", out)) and not re.search(r"[1-9]\d* failed", out)
        os.remove(f"{D}/repo/tests/seeded_demo.rs")
        shutil.rmtree(f"{D}/rt", ignore_errors=True)
        # (4) our checks on the mutant
        sh(f"git apply {mdir}/patch.diff", cwd=f"{D}/repo")
        sh(f"rsync -a --exclude target --exclude work --exclude .git --exclude evidence --exclude replays --exclude seeded /verif/ {D}/verif/")
        sh(f"sed -i 's#path = \"/repo\"#path = \"{D}/repo\"#' {D}/verif/harness/Cargo.toml")
        env_c = dict(env, CARGO_TARGET_DIR=f"{D}/vt", VERIF_SEED=os.environ.get("VERIF_SEED", "0"))
        props = [prop]
        if all_checks:
            props = [c["property_id"] for c in json.load(open("/verif/MANIFEST.json"))["checks"]]
            props.remove(prop)
            props.insert(0, prop)
        res["checks"] = {}
        for p in props:
            t0 = time.time()
            rc, out = sh(f"./check {p} {tier}", cwd=f"{D}/verif", env=env_c, timeout=7200)
            sigs = re.findall(r"^\s+signature: (.*)$", out, re.M)
            res["checks"][p] = {"exit": rc, "violations": len(re.findall(r"^VIOLATION", out, re.M)), "signatures": sigs[:8], "inconclusive": "INCONCLUSIVE" in out, "wall_s": round(time.time() - t0, 1)}
        res["caught_by"] = [p for p, r in res["checks"].items() if r["exit"] == 1]
        res["caught_by_own_property"] = res["checks"][prop]["exit"] == 1
    finally:
        shutil.rmtree(D, ignore_errors=True)
        json.dump(res, open(f"{mdir}/eval.json", "w"), indent=1)
    return res

if __name__ == "__main__":
    r = main()
    print(json.dumps({k: r.get(k) for k in ("property", "patch_applies", "baseline_suite_passes_with_mutant", "serde_lib_suite_passes_with_mutant", "demo_fails_with_mutant", "demo_passes_without_mutant", "caught_by_own_property", "caught_by")}))
