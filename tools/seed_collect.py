#!/usr/bin/env python3
"""Copies confirmed seeded mutants from /tmp/mut-out/<PROP>/m<k>/ into /verif/seeded/<PROP>-m<k>/
(patch.diff, demo.rs, meta.json enriched with what was run here) and prints the kill matrix."""
import json, os, shutil, glob
rows = []
for d in sorted(glob.glob('/tmp/mut-out/C*/m*')) + sorted(glob.glob('/tmp/mut-out2/C*/m*')) + sorted(glob.glob('/tmp/mut-out3/C*/m*')):
    ev = os.path.join(d, 'eval.json')
    if not os.path.exists(ev):
        continue
    r = json.load(open(ev))
    prop = r['property']; k = ('r3' if '/mut-out3/' in d else 'r2' if '/mut-out2/' in d else 'r1') + os.path.basename(d)
    ok = r.get('patch_applies') and r.get('baseline_suite_passes_with_mutant') and r.get('serde_lib_suite_passes_with_mutant') and r.get('demo_fails_with_mutant') and r.get('demo_passes_without_mutant')
    try:
        meta = json.load(open(os.path.join(d, 'meta.json')))
    except Exception:
        meta = {}
    rows.append((prop, k, ok, r.get('caught_by_own_property'), r.get('caught_by'), meta.get('summary', ''), meta.get('file', ''), r))
    if not ok:
        continue
    out = f'/verif/seeded/{prop}-{k}'
    os.makedirs(out, exist_ok=True)
    shutil.copy(os.path.join(d, 'patch.diff'), out)
    shutil.copy(os.path.join(d, 'demo.rs'), out)
    own = r.get('checks', {}).get(prop, {})
    m = {
        'property': prop, 'mutant': k,
        'summary': meta.get('summary'), 'file': meta.get('file'),
        'what_it_needs_to_manifest': meta.get('what_it_needs_to_manifest'),
        'demo_cmd': meta.get('demo_cmd'),
        'origin': 'written by a fresh sub-agent that saw only the property record and a scratch git worktree of /repo (nothing from /verif)',
        'confirmed_here': {
            'how': 'tools/seed_eval.py: scratch clone of /repo HEAD (' + r.get('repo_head', '?') + '), git apply patch.diff, `cargo test --offline --workspace --no-fail-fast` and `cargo test --offline --features serde --lib` pass, tests/seeded_demo.rs fails with the patch and passes without it',
            'baseline_suite_passes_with_mutant': r.get('baseline_suite_passes_with_mutant'),
            'serde_lib_suite_passes_with_mutant': r.get('serde_lib_suite_passes_with_mutant'),
            'demo_fails_with_mutant': r.get('demo_fails_with_mutant'),
            'demo_passes_without_mutant': r.get('demo_passes_without_mutant'),
        },
        'checks_run_against_it': {'tier': 'quick', 'seed': 0, 'own_property_check': {'exit': own.get('exit'), 'signatures': own.get('signatures')}, 'caught_by': r.get('caught_by'), 'evaluated_at': r.get('evaluated_at')},
    }
    json.dump(m, open(os.path.join(out, 'meta.json'), 'w'), indent=1)
print('| mutant | change | own check | also caught by |')
print('|---|---|---|---|')
for prop, k, ok, own, by, summ, f, r in rows:
    others = [b for b in (by or []) if b != prop]
    sig = (r.get('checks', {}).get(prop, {}).get('signatures') or [''])[0]
    print(f"| {prop}-{k} | {(summ or '')[:110]} | {'**caught** `' + sig[:70] + '`' if own else ('MISSED' if ok else 'not confirmed')} | {' '.join(others)} |")
n = len(rows); c = sum(1 for r in rows if r[2]); o = sum(1 for r in rows if r[2] and r[3]); a = sum(1 for r in rows if r[2] and r[4])
print(f'\n{n} delivered, {c} confirmed, {o} caught by the check of their own property, {a} caught by at least one check')
